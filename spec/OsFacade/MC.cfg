SPECIFICATION MCSpec
CONSTANTS NameIds = {1, 2}
  MaxDepth = 2
  GenDepth = 0
  MaxLevel = 5
  Narrow = TRUE
  TreeOnly = FALSE
CONSTRAINT Bounded
INVARIANTS TreeInv HandleInv IterInv ContentInv
