------------------------------- MODULE EnvMC -------------------------------
(* Bounded exploration of Env.tla: every sequence of set / unset / get (three forms) / home over   *)
(* three names (one of them HOME) and three values, both platform outcomes for the empty value.     *)
(* Checked: a value read is the value last written to that name and to no other (ghost `last`),     *)
(* "not set" reads as NULL, the nonempty form hides empty values only.                              *)
EXTENDS Env, TLC

CONSTANTS Values, MaxLevel       \* Values: set of [v, len]
VARIABLES last,                  \* ghost: [EnvNames -> what the latest successful set/unset of that name wrote]
          got                    \* ghost: the latest read [n, api, r]

MCValues == {[v |-> "", len |-> 0], [v |-> "x", len |-> 1], [v |-> "y=z", len |-> 3]}
mcvars == <<env, last, got>>
NoGot == [n |-> 0, api |-> -1, r |-> [null |-> 1]]
Res(x) == IF x.set THEN [null |-> 0, v |-> x.v, len |-> x.len, slen |-> x.len, own |-> 1] ELSE [null |-> 1]
NullRes == [null |-> 1]

On == TRUE     \* (a leading conjunct makes TLC report coverage under the action's plain name)
MCInit == EnvInit /\ last = [n \in EnvNames |-> Unset] /\ got = NoGot
MCSet == /\ On /\ \E n \in EnvNames, x \in Values : EnvSet(n, x.v, x.len, TRUE) /\ last' = [last EXCEPT ![n] = Val(x.v, x.len)] /\ got' = NoGot
MCUnset == /\ On /\ \E n \in EnvNames, ok \in BOOLEAN : EnvUnset(n, ok) /\ last' = [last EXCEPT ![n] = Unset] /\ got' = NoGot
MCGetOld == /\ On /\ \E n \in EnvNames : \E r \in {Res(env[n]), NullRes} : EnvGetOld(n, TRUE, r) /\ got' = [n |-> n, api |-> 0, r |-> r] /\ UNCHANGED last
MCGet == /\ On /\ \E n \in EnvNames : \E r \in {Res(env[n]), NullRes} : EnvGet(n, r) /\ got' = [n |-> n, api |-> 1, r |-> r] /\ UNCHANGED last
MCGetNonempty == /\ On /\ \E n \in EnvNames : \E r \in {Res(env[n]), NullRes} : EnvGetNonempty(n, r) /\ got' = [n |-> n, api |-> 2, r |-> r] /\ UNCHANGED last
MCGetHome == /\ On /\ \E r \in {Res(env[HomeName]), NullRes, Res(Val("/root", 5))} : GetHome(r) /\ got' = [n |-> HomeName, api |-> 3, r |-> r] /\ UNCHANGED last
MCNext == MCSet \/ MCUnset \/ MCGetOld \/ MCGet \/ MCGetNonempty \/ MCGetHome
MCSpec == MCInit /\ [][MCNext]_mcvars
Bounded == TLCGet("level") <= MaxLevel

(* the environment is what was last written, up to the documented latitude for the empty value *)
LastInv == \A n \in EnvNames : env[n] = last[n] \/ (last[n].set /\ last[n].len = 0 /\ env[n] = Unset)
(* what a read reports *)
ReadInv == got.api \in {0, 1, 2} =>
              LET w == last[got.n] IN
              /\ (~w.set) => got.r.null = 1
              /\ (w.set /\ w.len > 0) => (got.r.null = 0 /\ got.r.v = w.v /\ got.r.len = w.len)
              /\ (w.set /\ w.len = 0) => (got.r.null = 1 \/ (got.r.v = "" /\ got.r.len = 0))
              /\ (got.api = 2 /\ w.len = 0) => got.r.null = 1
=============================================================================
