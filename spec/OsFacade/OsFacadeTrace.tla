---------------------------- MODULE OsFacadeTrace ----------------------------
(* Trace validation for X04: every event recorded from the real environment / file functions      *)
(* must be explained by the action of the same name in Env.tla / File.tla with exactly the logged   *)
(* arguments and results, and the state observed after the call (the directory tree as plain POSIX  *)
(* calls see it, the model variables of the process environment as plain getenv sees them, the      *)
(* number of live allocator blocks and of open descriptors) must equal the specification's.         *)
EXTENDS Env, File, TraceCommon

VARIABLES l, fdbase
Ev == TraceLog[l]
tvars == <<env, dirs, files, links, fh, it, l, fdbase>>

Seq2Set(s) == {s[i] : i \in 1..Len(s)}

(* no leak: allocator blocks are only alive while an iterator is; descriptors only for the open handle *)
ObsCommon(s) ==
    /\ it'.open \/ s.live = 0
    /\ s.fds = fdbase + (IF fh'.open THEN 1 ELSE 0)
ObsTree(s) ==
    /\ ObsCommon(s)
    /\ LET T == Seq2Set(s.tree) IN
       /\ \A e \in T : e.t \in {1, 2, 4}
       /\ s.tgt = 1                                             \* what the links point to (outside the tree) is untouched
       /\ {e.p : e \in {x \in T : x.t = 2}} = links'
       /\ {e.p : e \in {x \in T : x.t = 4}} = dirs' \ {Root}
       /\ {e.p : e \in {x \in T : x.t = 1}} = DOMAIN files'
       /\ \A e \in T : e.t = 1 => files'[e.p] = [n |-> e.n, h1 |-> e.h1, h2 |-> e.h2]
ObsEnv(s) ==
    /\ ObsCommon(s)
    /\ \A x \in Seq2Set(s.env) : env'[x.n] = IF x.set = 1 THEN Val(x.v, x.len) ELSE Unset

EnvStep(A) == A /\ UNCHANGED <<fvars, fdbase>> /\ ObsEnv(Ev.s)
FileStep(A) == A /\ UNCHANGED <<env, fdbase>> /\ ObsTree(Ev.s)
PureStep(A) == A /\ UNCHANGED <<env, fdbase>>

TReset == /\ Ev.e = "Reset" /\ Ev.live = 0
          /\ env' = [n \in EnvNames |-> Unset]
          /\ dirs' = {Root} /\ files' = [q \in {} |-> Empty] /\ links' = {} /\ fh' = NoFh /\ it' = NoIt
          /\ fdbase' = Ev.fds

TEnvSet == Ev.e = "EnvSet" /\ EnvStep(EnvSet(Ev.n, Ev.v, Ev.len, Ev.rc = 0))
TEnvUnset == Ev.e = "EnvUnset" /\ EnvStep(EnvUnset(Ev.n, Ev.rc = 0))
TEnvGet == /\ Ev.e = "EnvGet"
           /\ EnvStep(CASE Ev.api = 0 -> EnvGetOld(Ev.n, Ev.rc = 0, Ev)
                        [] Ev.api = 1 -> EnvGet(Ev.n, Ev)
                        [] Ev.api = 2 -> EnvGetNonempty(Ev.n, Ev))
TGetHome == Ev.e = "GetHome" /\ EnvStep(GetHome(Ev))

TRawPut == Ev.e = "RawPut" /\ Ev.ok = 1 /\ FileStep(RawPut(Ev.p, Ev.c))
TRawAppend == Ev.e = "RawAppend" /\ Ev.ok = 1 /\ FileStep(RawAppend(Ev.p, Ev.c))
TRawMkdir == Ev.e = "RawMkdir" /\ Ev.ok = 1 /\ FileStep(RawMkdir(Ev.p))
TRawSymlink == Ev.e = "RawSymlink" /\ Ev.ok = 1 /\ FileStep(RawSymlink(Ev.p))
TDirCreate == Ev.e = "DirCreate" /\ FileStep(DirCreate(Ev.p, Ev.rc = 0))
TDirExists == Ev.e = "DirExists" /\ FileStep(DirExists(Ev.p, Ev.res = 1))
TPathExists == Ev.e = "PathExists" /\ FileStep(PathExists(Ev.p, Ev.res = 1))
TDirDelete == Ev.e = "DirDelete" /\ FileStep(DirDelete(Ev.p, Ev.rec = 1, Ev.rc = 0))
TFileDelete == Ev.e = "FileDelete" /\ FileStep(FileDelete(Ev.p, Ev.rc = 0))
TMove == Ev.e = "Move" /\ FileStep(Move(Ev.p, Ev.q, Ev.rc = 0))
TTraverse == /\ Ev.e = "Traverse" /\ Ev.calls = Len(Ev.seen)
             /\ FileStep(Traverse(Ev.p, Ev.style, Ev.rec = 1, Ev.stop, Ev.rc = 0, Ev.seen))

TIterNew == /\ Ev.e = "IterNew"
            /\ FileStep(IF Ev.busy = 1 THEN it.open /\ UNCHANGED fvars ELSE IterNew(Ev.p, Ev.style, Ev.ok = 1, Ev.cur))
TIterNext == /\ Ev.e = "IterNext"
             /\ FileStep(IF Ev.noit = 1 THEN ~it.open /\ UNCHANGED fvars ELSE IterNext(Ev.rc = 0, Ev.err, Ev.cur))
TIterPrev == /\ Ev.e = "IterPrev"
             /\ FileStep(IF Ev.noit = 1 THEN ~it.open /\ UNCHANGED fvars ELSE IterPrev(Ev.rc = 0, Ev.err, Ev.cur))
TIterDestroy == /\ Ev.e = "IterDestroy"
                /\ FileStep(IF Ev.noit = 1 THEN ~it.open /\ UNCHANGED fvars ELSE IterDestroy)

TFopen == /\ Ev.e = "Fopen"
          /\ FileStep(IF Ev.busy = 1 THEN fh.open /\ UNCHANGED fvars ELSE Fopen(Ev.p, Ev.m, Ev.ok = 1))
TFopenBad == Ev.e = "FopenBad" /\ FileStep(FopenBad(Ev.ok = 1))
TFwrite == /\ Ev.e = "Fwrite"
           /\ FileStep(IF Ev.noh = 1 THEN ~fh.open /\ UNCHANGED fvars ELSE Ev.ok = 1 /\ Fwrite(Ev.c))
TFlen == /\ Ev.e = "Flen"
         /\ FileStep(IF Ev.noh = 1 THEN ~fh.open /\ UNCHANGED fvars ELSE Flen(Ev.rc = 0, Ev.len))
TFseek == /\ Ev.e = "Fseek"
          /\ FileStep(IF Ev.noh = 1 THEN ~fh.open /\ UNCHANGED fvars ELSE Fseek(Ev.off, Ev.whence, Ev.rc = 0, Ev.pos))
TFreadRest == /\ Ev.e = "FreadRest"
              /\ FileStep(IF Ev.noh = 1 THEN ~fh.open /\ UNCHANGED fvars ELSE FreadRest(Ev.c))
TFclose == /\ Ev.e = "Fclose"
           /\ FileStep(IF Ev.noh = 1 THEN ~fh.open /\ UNCHANGED fvars ELSE Fclose)
TBufFromFifo == Ev.e = "BufFromFifo" /\ FileStep(BufFromFifo(Ev))
TBufFromFile == Ev.e = "BufFromFile" /\ FileStep(BufFromFile(Ev.p, Ev.style = "e", Ev))

TIsSepAll == Ev.e = "IsSepAll" /\ Len(Ev.res) = 256 /\ PureStep(IsSepAll(Ev.res))
TPlatSep == Ev.e = "PlatSep" /\ PureStep(PlatSep(Ev.res))
TNormalize == Ev.e = "Normalize" /\ PureStep(Normalize(Ev.in, Ev.out))

TEnd == Ev.e = "End" /\ Ev.live = 0 /\ UNCHANGED <<env, fvars, fdbase>>

TNext == /\ l <= TraceLen /\ l' = l + 1
         /\ \/ TReset \/ TEnd
            \/ TEnvSet \/ TEnvUnset \/ TEnvGet \/ TGetHome
            \/ TRawPut \/ TRawAppend \/ TRawMkdir \/ TRawSymlink
            \/ TDirCreate \/ TDirExists \/ TPathExists \/ TDirDelete \/ TFileDelete \/ TMove \/ TTraverse
            \/ TIterNew \/ TIterNext \/ TIterPrev \/ TIterDestroy
            \/ TFopen \/ TFopenBad \/ TFwrite \/ TFlen \/ TFseek \/ TFreadRest \/ TFclose \/ TBufFromFile \/ TBufFromFifo
            \/ TIsSepAll \/ TPlatSep \/ TNormalize
TInit == l = 1 /\ fdbase = 0 /\ EnvInit /\ FileInit
TSpec == TInit /\ [][TNext]_tvars
=============================================================================
