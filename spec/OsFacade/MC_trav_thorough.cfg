SPECIFICATION MCSpec
CONSTANTS NameIds = {1, 2}
  MaxDepth = 2
  GenDepth = 0
  MaxLevel = 7
  Narrow = FALSE
  TreeOnly = TRUE
CONSTRAINT Bounded
INVARIANTS TreeInv ContentInv TraverseSat PreOrderRejected
