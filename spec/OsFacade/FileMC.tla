------------------------------- MODULE FileMC -------------------------------
(* Bounded exploration of File.tla (all operation sequences over a tiny name space, both outcomes   *)
(* wherever the header leaves the result open) with the consistency invariants, two sanity          *)
(* invariants about the traversal contract (a canonical post-order listing is always accepted, its  *)
(* reversal is rejected as soon as a non-empty directory is involved), and behaviour generation     *)
(* (simulation with a history variable printed as a JSON script).                                   *)
(* The state space is unbounded (a move can nest a subtree below another one again and again), so   *)
(* the exploration is bounded by depth (MaxLevel) rather than by the name space alone.              *)
(* Script discipline built into the wrappers (the header says nothing about these situations, so    *)
(* scripts stay away from them): the tree is not modified while the iterator is open; the file      *)
(* behind the open handle is not deleted, moved or replaced; no path handed to the library names or *)
(* crosses a symbolic link (links are contents of directories only).                                *)
EXTENDS File, TLC, Json

CONSTANTS MaxDepth, GenDepth, MaxLevel,
          Narrow,         \* TRUE: second-level entries only below one first-level name (names are interchangeable)
          TreeOnly        \* TRUE: only the calls that change the tree (the configuration that checks the traversal contract)
VARIABLES hist

mcvars == <<dirs, files, links, fh, it, hist>>

Lead == IF Narrow THEN {CHOOSE a \in NameIds : TRUE} ELSE NameIds
Paths == {<<a>> : a \in NameIds}
         \cup (IF MaxDepth >= 2 THEN {<<a, b>> : a \in Lead, b \in NameIds} ELSE {})
         \cup (IF MaxDepth >= 3 THEN {<<a, b, c>> : a \in Lead, b \in Lead, c \in NameIds} ELSE {})
AllPaths == Paths \cup {Root}
QPaths == IF GenDepth > 0 THEN AllPaths ELSE {Root} \cup {p \in Paths : \A i \in 1..Len(p) : p[i] \in Lead}      \* calls that change nothing: three subjects suffice when model checking
Chunks == {[n |-> 1, h1 |-> 98, h2 |-> 98], [n |-> 3, h1 |-> 1000, h2 |-> 2000]}

Op(name, p, q, x, y, m) == [op |-> name, p |-> p, q |-> q, x |-> x, y |-> y, m |-> m]
Rec(o) == hist' = IF GenDepth > 0 THEN Append(hist, o) ELSE hist
G == GenDepth > 0 => Len(hist) < GenDepth
GH == G /\ ~TreeOnly                                         \* handle / iterator / read-only calls
Near(p) == GenDepth > 0 => IsDir(Parent(p))                 \* generation stays next to the existing tree
NoLink(p) == \A k \in 1..Len(p) : ~IsLink(SubSeq(p, 1, k))   \* script discipline: a path handed to the library neither names nor crosses a link
Mut(p) == ~it.open /\ ~(fh.open /\ IsPrefix(p, fh.p))       \* script discipline (see above)
B(b) == IF b THEN 1 ELSE 0

Entry(q) == [null |-> 0, p |-> q, pabs |-> 1, t |-> IF IsDir(q) THEN 4 ELSE IF IsLink(q) THEN 2 ELSE 1,
             sz |-> IF IsFile(q) THEN files[q].n ELSE 0, rel |-> q, relabs |-> 0]
NullEntry == [null |-> 1]
RECURSIVE PostOrder(_)
PostOrder(S) == IF S = {} THEN <<>>
                ELSE LET c == CHOOSE x \in S : TRUE
                     IN (IF IsDir(c) THEN PostOrder(Children(c)) ELSE <<>>) \o <<Entry(c)>> \o PostOrder(S \ {c})
RECURSIVE Flat(_)
Flat(S) == IF S = {} THEN <<>> ELSE LET c == CHOOSE x \in S : TRUE IN <<Entry(c)>> \o Flat(S \ {c})
Witness(p, rec, stop) ==
    LET full == IF rec THEN PostOrder(Children(p)) ELSE Flat(Children(p))
    IN IF stop = 0 \/ stop > Len(full) THEN full ELSE SubSeq(full, 1, stop)
Reverse(s) == [i \in 1..Len(s) |-> s[Len(s) + 1 - i]]

MCInit == FileInit /\ hist = <<>>

MCRawPut == /\ G /\ \E p \in Paths, c \in Chunks : Mut(p) /\ RawPut(p, c) /\ Rec(Op("MKFILE", p, Root, c.n, 0, ""))
MCRawMkdir == /\ G /\ \E p \in Paths : Mut(p) /\ RawMkdir(p) /\ Rec(Op("MKDIRRAW", p, Root, 0, 0, ""))
MCRawSymlink == /\ G /\ Cardinality(links) < 2 /\ \E p \in Paths : Mut(p) /\ RawSymlink(p) /\ Rec(Op("MKLINKRAW", p, Root, 0, 0, ""))
MCDirCreate == /\ G /\ \E p \in {x \in Paths : NoLink(x)}, ok \in BOOLEAN : Mut(p) /\ Near(p) /\ DirCreate(p, ok) /\ Rec(Op("DCREATE", p, Root, 0, 0, ""))
MCDirExists == /\ GH /\ \E p \in {x \in QPaths : NoLink(x)} : DirExists(p, IsDir(p)) /\ Rec(Op("DEXISTS", p, Root, 0, 0, "")) /\ (p # Root => Near(p))
MCPathExists == /\ GH /\ \E p \in {x \in QPaths : NoLink(x)} : PathExists(p, Exists(p)) /\ Rec(Op("PEXISTS", p, Root, 0, 0, "")) /\ (p # Root => Near(p))
MCDirDelete == /\ G /\ \E p \in {x \in Paths : NoLink(x)}, rec \in BOOLEAN, ok \in BOOLEAN :
                      Mut(p) /\ Near(p) /\ DirDelete(p, rec, ok) /\ Rec(Op("DDELETE", p, Root, B(rec), 0, ""))
MCFileDelete == /\ G /\ \E p \in {x \in Paths : NoLink(x)}, ok \in BOOLEAN : Mut(p) /\ Near(p) /\ FileDelete(p, ok) /\ Rec(Op("FDELETE", p, Root, 0, 0, ""))
MCMove == /\ G /\ \E from \in Paths, to \in Paths, ok \in BOOLEAN :
                 /\ NoLink(from) /\ NoLink(to)
                 /\ Mut(from) /\ Mut(to) /\ Near(from) /\ Near(to) /\ (GenDepth > 0 => Exists(from))
                 /\ Move(from, to, ok)
                 /\ (ok /\ ~Exists(to)) =>
                       Assert(Cardinality(dirs') = Cardinality(dirs) /\ Cardinality(DOMAIN files') = Cardinality(DOMAIN files)
                                 /\ Cardinality(links') = Cardinality(links),
                              "a move into a free name lost or invented a node")
                 /\ Rec(Op("MOVE", from, to, 0, 0, ""))
MCTraverse == /\ GH /\ \E p \in {x \in QPaths : NoLink(x)}, rec \in BOOLEAN, stop \in 0..2 :
                     /\ p # Root => Near(p)
                     /\ (GenDepth = 0 /\ ~IsDir(p)) => (stop = 0 /\ rec)      \* one failing call per non-directory is enough
                     /\ LET w == IF IsDir(p) THEN Witness(p, rec, stop) ELSE <<>>
                        IN Traverse(p, "r", rec, stop, IsDir(p), w)             \* (an aborted traversal may report either result)
                     /\ Rec(Op("TRAVERSE", p, Root, B(rec), stop, ""))
MCIterNew == /\ GH /\ \E p \in {x \in AllPaths : NoLink(x)}, ok \in BOOLEAN :
                    /\ p # Root => Near(p)
                    /\ \E cur \in {Entry(q) : q \in Children(p)} \cup {NullEntry} : IterNew(p, "r", ok, cur)
                    /\ Rec(Op("ITNEW", p, Root, 0, 0, ""))
ItCands == {[null |-> 0, p |-> q, pabs |-> 1, t |-> IF it.kinds[q] = -1 THEN 4 ELSE IF it.kinds[q] = -2 THEN 2 ELSE 1, sz |-> IF it.kinds[q] < 0 THEN 0 ELSE it.kinds[q],
             rel |-> q, relabs |-> 0] : q \in DOMAIN it.kinds} \cup {NullEntry}
MCIterNext == /\ GH /\ it.open /\ \E ok \in BOOLEAN, cur \in ItCands : IterNext(ok, IF ok THEN "" ELSE "AWS_ERROR_LIST_EMPTY", cur)
              /\ Rec(Op("ITNEXT", Root, Root, 0, 0, ""))
MCIterPrev == /\ GH /\ it.open /\ \E ok \in BOOLEAN, cur \in ItCands : IterPrev(ok, IF ok THEN "" ELSE "AWS_ERROR_LIST_EMPTY", cur)
              /\ Rec(Op("ITPREV", Root, Root, 0, 0, ""))
MCIterDestroy == /\ GH /\ IterDestroy /\ Rec(Op("ITDESTROY", Root, Root, 0, 0, ""))
MCFopen == /\ GH /\ \E p \in Paths, m \in {"r", "w", "a"}, ok \in BOOLEAN :
                  /\ ~it.open \/ m = "r"
                  /\ Near(p) /\ ~IsDir(p) /\ NoLink(p)
                  /\ Fopen(p, m, ok) /\ Rec(Op("FOPEN", p, Root, 0, 0, m))
MCFwrite == /\ GH /\ ~it.open /\ \E c \in Chunks : Fwrite(c) /\ Rec(Op("FWRITE", Root, Root, c.n, 0, ""))
MCFlen == /\ GH /\ fh.open /\ IsFile(fh.p) /\ Flen(TRUE, files[fh.p].n) /\ Rec(Op("FLEN", Root, Root, 0, 0, ""))
SeekOffs == {<<0, 0>>, <<0, 1>>, <<0, 2>>, <<-1, W30 - 1>>, <<-1, W30 - 2>>, <<4, 5>>}
MCFseek == /\ GH /\ fh.open /\ fh.m = "r" /\ IsFile(fh.p)
           /\ \E off \in SeekOffs, wh \in {"set", "end"}, ok \in BOOLEAN :
                 LET target == IF wh = "set" THEN off ELSE WAddSmall(off, files[fh.p].n)
                 IN /\ Fseek(off, wh, ok, IF WNonNeg(target) THEN target ELSE fh.pos)
                    /\ Rec(Op("FSEEK", Root, Root, off[1], off[2], wh))
MCFreadRest == /\ GH /\ fh.open /\ fh.m = "r" /\ IsFile(fh.p)
               /\ FreadRest(IF fh.pos = WZero THEN files[fh.p] ELSE [n |-> WRemaining(fh.pos, files[fh.p].n), h1 |-> 0, h2 |-> 0])
               /\ Rec(Op("FREADREST", Root, Root, 0, 0, ""))
MCFclose == /\ GH /\ Fclose /\ Rec(Op("FCLOSE", Root, Root, 0, 0, ""))
MCBufFromFile == /\ GH /\ \E p \in {x \in QPaths \ {Root} : NoLink(x)} :
                        /\ Near(p)
                        /\ BufFromFile(p, FALSE, IF IsFile(p) THEN [rc |-> 0, c |-> files[p], nul |-> 1, own |-> 1, unused |-> 2]
                                                 ELSE [rc |-> -1, c |-> Empty, nul |-> 0, own |-> 0, unused |-> 0])
                        /\ Rec(Op("BUFFILE", p, Root, 0, 0, ""))

MCNext == \/ MCRawPut \/ MCRawMkdir \/ MCRawSymlink \/ MCDirCreate \/ MCDirExists \/ MCPathExists \/ MCDirDelete \/ MCFileDelete \/ MCMove
          \/ MCTraverse \/ MCIterNew \/ MCIterNext \/ MCIterPrev \/ MCIterDestroy
          \/ MCFopen \/ MCFwrite \/ MCFlen \/ MCFseek \/ MCFreadRest \/ MCFclose \/ MCBufFromFile
MCSpec == MCInit /\ [][MCNext]_mcvars

Bounded == MaxLevel > 0 => TLCGet("level") <= MaxLevel

(* the traversal contract is satisfiable in every reachable tree, for both modes and every abort point ... *)
TraverseSat == \A p \in dirs, rec \in BOOLEAN, stop \in 0..3 :
                   LET w == Witness(p, rec, stop)
                       total == Cardinality(IF rec THEN Under(p) ELSE Children(p))
                   IN TraverseOK(p, "r", rec, stop, stop = 0 \/ stop > total, w)
(* ... and it has teeth: listing a non-empty directory before its contents violates it *)
PreOrderRejected == \A p \in dirs :
                       (\E d \in Under(p) : IsDir(d) /\ Under(d) # {}) =>
                           LET w == Reverse(Witness(p, TRUE, 0)) IN ~TraverseOK(p, "r", TRUE, 0, TRUE, w)
ContentInv == \A f \in DOMAIN files : files[f].n >= 0 /\ files[f].h1 \in 0..(P1 - 1) /\ files[f].h2 \in 0..(P2 - 1)
                                      /\ (files[f].n = 0 => files[f] = Empty)

Emit == (GenDepth > 0 /\ Len(hist) = GenDepth) => PrintT(<<"SCRIPT", ToJson([ops |-> hist])>>)
=============================================================================
