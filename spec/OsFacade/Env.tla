--------------------------------- MODULE Env ---------------------------------
(* The environment shims of aws-c-common (include/aws/common/environment.h) as the header        *)
(* documents them: the environment is a map from names to values; set then get returns an equal   *)
(* string that the caller owns; a variable that is not set reads as NULL (with success for the    *)
(* deprecated three-argument form); "On Windows, setting a variable to the empty string will      *)
(* actually unset it" - so after set(name, "") the variable is either set to "" or not set, the   *)
(* header leaves it to the platform; names are independent of each other.                         *)
(* A value is the record [set, v, len] (len = number of bytes, logged by the adapter because TLC  *)
(* does not take the length of a string).                                                         *)
EXTENDS Naturals, Integers, Sequences, FiniteSets

CONSTANTS EnvNames,        \* finite set of integers; the adapter maps n to "VERIF_X04_<n>" and HomeName to "HOME"
          HomeName

VARIABLES env              \* [EnvNames -> value]

Unset == [set |-> FALSE, v |-> "", len |-> 0]
Val(v, len) == [set |-> TRUE, v |-> v, len |-> len]

EnvInit == env = [n \in EnvNames |-> Unset]

(* aws_set_environment_value *)
EnvSet(n, v, len, ok) ==
    /\ n \in EnvNames
    /\ ok
    /\ \/ env' = [env EXCEPT ![n] = Val(v, len)]
       \/ len = 0 /\ env' = [env EXCEPT ![n] = Unset]        \* documented platform latitude for the empty value

(* aws_unset_environment_value (unsetting a variable that is not set: result not documented) *)
EnvUnset(n, ok) ==
    /\ n \in EnvNames
    /\ env[n].set => ok
    /\ env' = [env EXCEPT ![n] = Unset]

(* r = [null: 1 iff no string was produced, v, len: aws_string.len, slen: strlen of its bytes,     *)
(*      own: 1 iff the string is a block of the allocator that was passed]                         *)
Same(r, x) == r.null = 0 /\ r.v = x.v /\ r.len = x.len /\ r.slen = x.len /\ r.own = 1

(* aws_get_environment_value (deprecated): success; *value_out = NULL iff not set *)
EnvGetOld(n, ok, r) ==
    /\ n \in EnvNames /\ ok
    /\ IF env[n].set THEN Same(r, env[n]) ELSE r.null = 1
    /\ UNCHANGED env
(* aws_get_env: NULL iff not set *)
EnvGet(n, r) ==
    /\ n \in EnvNames
    /\ IF env[n].set THEN Same(r, env[n]) ELSE r.null = 1
    /\ UNCHANGED env
(* aws_get_env_nonempty: NULL iff not set or empty *)
EnvGetNonempty(n, r) ==
    /\ n \in EnvNames
    /\ IF env[n].set /\ env[n].len > 0 THEN Same(r, env[n]) ELSE r.null = 1
    /\ UNCHANGED env

(* aws_get_home_directory (file.h): "Returns the current user's home directory."  On posix the    *)
(* home directory of the current user is what HOME says when it says something; with HOME unset   *)
(* or empty the answer comes from the user database and is not modelled (any string or NULL).     *)
GetHome(r) ==
    /\ (env[HomeName].set /\ env[HomeName].len > 0) => Same(r, env[HomeName])
    /\ r.null = 0 => r.own = 1 /\ r.len = r.slen
    /\ UNCHANGED env

EnvTypeInv == \A n \in EnvNames : env[n].set \/ env[n] = Unset
=============================================================================
