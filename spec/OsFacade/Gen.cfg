SPECIFICATION MCSpec
CONSTANTS NameIds = {1, 2, 3}
  MaxDepth = 3
  GenDepth = 40
  MaxLevel = 0
  Narrow = FALSE
  TreeOnly = FALSE
INVARIANT Emit
