SPECIFICATION MCSpec
CONSTANTS EnvNames = {0, 1, 2}
  HomeName = 0
  Values <- MCValues
  MaxLevel = 6
CONSTRAINT Bounded
INVARIANTS EnvTypeInv LastInv ReadInv
