SPECIFICATION MCSpec
CONSTANTS NameIds = {1, 2}
  MaxDepth = 2
  GenDepth = 0
  MaxLevel = 7
  Narrow = FALSE
  TreeOnly = FALSE
CONSTRAINT Bounded
INVARIANTS TreeInv HandleInv IterInv ContentInv
