---------------------------- MODULE ThreadsTrace ----------------------------
EXTENDS ThreadsAbs, TraceCommon
VARIABLES l
Ev == TraceLog[l]

TReset == /\ Ev.e = "Reset"
          /\ st' = [i \in Thr |-> "none"] /\ kind' = [i \in Thr |-> ""] /\ tid' = [i \in Thr |-> 0 - 1]
          /\ nreg' = [i \in Thr |-> 0] /\ ncb' = [i \in Thr |-> <<>>] /\ joined' = [i \in Thr |-> FALSE] /\ mainTid' = 0
          /\ once' = [n \in Onces |-> "no"] /\ jto' = WZero /\ jt0' = WZero
          /\ part' = [i \in Thr |-> "no"] /\ snap' = {}
TSetup == Ev.e = "Setup" /\ mainTid' = Ev.main /\ UNCHANGED <<st, kind, tid, nreg, ncb, joined, once>>
TLaunch == Ev.e = "Launch" /\ Launch(Ev.thr, Ev.kind)
(* launch succeeds (a cpu that cannot be used is not an error: the library launches unpinned); the thread object *)
(* reports the join strategy it was launched with: AWS_THREAD_JOINABLE = 2, AWS_THREAD_MANAGED = 4             *)
TLaunchRet == /\ Ev.e = "LaunchRet" /\ Ev.rc = 0
              /\ Ev.detach = (IF kind[Ev.thr] = "managed" THEN 4 ELSE 2)
              /\ UNCHANGED tvars
TFnRan == Ev.e = "FnRan" /\ FnRan(Ev.thr, Ev.on, Ev.argok)
TAtExitReg == Ev.e = "AtExitReg" /\ AtExitReg(Ev.thr, Ev.idx, Ev.rc)
TFnEnd == Ev.e = "FnEnd" /\ FnEnd(Ev.thr)
TAtExit == Ev.e = "AtExit" /\ AtExit(Ev.thr, Ev.idx, Ev.on)
TJoinRet == Ev.e = "JoinRet" /\ JoinRet(Ev.thr, Ev.rc)
TSelfJoin == Ev.e = "SelfJoin" /\ SelfJoin(Ev.thr, Ev.rc) /\ UNCHANGED jvars
TCount == /\ Ev.e \in {"CountIncBegin", "CountIncEnd", "CountDecBegin", "CountDecEnd"}
          /\ CASE Ev.e = "CountIncBegin" -> CountStep(Ev.thr, "no", "pending")
               [] Ev.e = "CountIncEnd" -> CountStep(Ev.thr, "pending", "in")
               [] Ev.e = "CountDecBegin" -> CountStep(Ev.thr, "in", "out")
               [] OTHER -> CountStep(Ev.thr, "out", "done")
TJoinAllBegin == Ev.e = "JoinAllBegin" /\ snap' = {i \in Thr : part[i] = "in"} /\ part' = part /\ JoinAllBegin(Ev.t)
TSetJoinTimeout == Ev.e = "SetJoinTimeout" /\ SetJoinTimeout(Ev.ns)
TReInit == Ev.e = "ReInit" /\ UNCHANGED tvars     \* initialising the library again changes nothing observable
TJoinAllRet == Ev.e = "JoinAllRet" /\ JoinAllRet(Ev.rc, Ev.count, Ev.t, Ev.uj)
TOnceRan == Ev.e = "OnceRan" /\ OnceRan(Ev.n, Ev.argok)
TOnceEnd == Ev.e = "OnceEnd" /\ OnceEnd(Ev.n)
TOnceRet == Ev.e = "OnceRet" /\ OnceRet(Ev.n)
TSelfView == Ev.e = "SelfView" /\ SelfView(Ev.thr, Ev.ideq, Ev.idmain, Ev.named, Ev.nameok, Ev.sleptok)
TEnd == Ev.e = "End" /\ EndOk(Ev.live, Ev.unjoined)

TNext == l <= TraceLen /\ l' = l + 1 /\ (Ev.e \notin {"Reset", "JoinAllBegin", "SetJoinTimeout"} => UNCHANGED jvars) /\
         (Ev.e \notin {"Reset", "JoinAllBegin", "CountIncBegin", "CountIncEnd", "CountDecBegin", "CountDecEnd"} => UNCHANGED pvars) /\
         (TReset \/ TSetup \/ TLaunch \/ TLaunchRet \/ TFnRan \/ TAtExitReg \/ TFnEnd \/ TAtExit \/ TJoinRet \/ TSelfJoin \/ TCount
            \/ TJoinAllBegin \/ TSetJoinTimeout \/ TReInit \/ TJoinAllRet \/ TOnceRan \/ TOnceEnd \/ TOnceRet \/ TSelfView \/ TEnd)
TSpec == (l = 1 /\ TInit0 /\ jto = WZero /\ jt0 = WZero /\ part = [i \in Thr |-> "no"] /\ snap = {}) /\ [][TNext]_<<tvars, jvars, pvars, l>>
=============================================================================
