SPECIFICATION Spec
CONSTANTS N = 4
  Parent <- ParentNest4
INVARIANTS NoDoubleJoin NoSelfJoin AtReturn PendingShort
