----------------------------- MODULE ThreadsAbs -----------------------------
(* Property C20 over what a user of aws_thread can observe: launches, the thread function        *)
(* running (on which thread), at-exit registrations and callbacks, join / join-all returning.    *)
EXTENDS Naturals, Sequences, FiniteSets, Wide

CONSTANTS Thr        \* scenario thread ids
Onces == 1..3        \* once-flags of a scenario

VARIABLES st,        \* [Thr -> {"none", "launched", "running", "ended"}]
          kind,      \* [Thr -> {"manual", "managed", ""}]
          tid,       \* [Thr -> Nat]  the OS-level thread the function ran on (-1 = not yet)
          nreg, ncb, \* at-exit callbacks: how many were registered so far / the stack of those not yet run (top = last)
          joined,    \* [Thr -> BOOLEAN]  a manual join returned
          mainTid,
          once       \* [Onces -> {"no", "running", "done"}]  functions handed to aws_thread_call_once

tvars == <<st, kind, tid, nreg, ncb, joined, mainTid, once>>

(* the optional bound on join-all (aws_thread_set_managed_join_timeout_ns); times are Wide numbers of nanoseconds *)
VARIABLES jto,       \* the time-out in force (WZero: unbounded, the default)
          jt0        \* clock value when the join-all call in progress began
jvars == <<jto, jt0>>
(* participants counted by hand (aws_thread_increment_unjoined_count / _decrement_, what event-loop threads of the sibling *)
(* libraries do): join-all waits for them like for managed threads                                                        *)
(* part[i]: "no" -> "pending" (increment call begun) -> "in" (it returned) -> "out" (decrement call begun) -> "done";      *)
(* snap: the participants that were "in" when the join-all call in progress began - the ones it has to wait for          *)
VARIABLES part, snap
pvars == <<part, snap>>
Counted == {i \in DOMAIN part : part[i] \in {"pending", "in", "out"}}
CountStep(i, from, to) == part[i] = from /\ part' = [part EXCEPT ![i] = to] /\ snap' = snap /\ UNCHANGED tvars
(* A bounded join-all that reports success has returned within a second of its deadline.  On the virtual clock of the  *)
(* harness the library's own deadline is exact; the slack covers a clock jump to the end of some thread's 1 ms sleep     *)
(* between the library's last look at the clock and the harness reading it (scenarios let only managed threads sleep    *)
(* longer, and those have finished when join-all succeeds).                                                             *)
JoinSlack == WFromNat(1000000000)

TInit0 ==
    /\ st = [i \in Thr |-> "none"] /\ kind = [i \in Thr |-> ""] /\ tid = [i \in Thr |-> 0 - 1]
    /\ nreg = [i \in Thr |-> 0] /\ ncb = [i \in Thr |-> <<>>] /\ joined = [i \in Thr |-> FALSE] /\ mainTid = 0
    /\ once = [n \in Onces |-> "no"]

Launch(i, k) ==
    /\ st[i] = "none" /\ k \in {"manual", "managed"}
    /\ st' = [st EXCEPT ![i] = "launched"] /\ kind' = [kind EXCEPT ![i] = k]
    /\ UNCHANGED <<tid, nreg, ncb, joined, mainTid, once>>

(* the function runs exactly once, with the argument given at launch, on a thread of its own *)
FnRan(i, on, argok) ==
    /\ st[i] = "launched" /\ argok = 1
    /\ on # mainTid /\ \A j \in Thr : tid[j] # on
    /\ st' = [st EXCEPT ![i] = "running"] /\ tid' = [tid EXCEPT ![i] = on]
    /\ UNCHANGED <<kind, nreg, ncb, joined, mainTid, once>>

AtExitReg(i, idx, rc) ==
    /\ st[i] \in {"running", "ended"} /\ rc = 0 /\ idx = nreg[i] + 1     \* (also from inside a callback that is being run)
    /\ nreg' = [nreg EXCEPT ![i] = idx] /\ ncb' = [ncb EXCEPT ![i] = Append(@, idx)]
    /\ UNCHANGED <<st, kind, tid, joined, mainTid, once>>

FnEnd(i) ==
    /\ st[i] = "running" /\ st' = [st EXCEPT ![i] = "ended"]
    /\ UNCHANGED <<kind, tid, nreg, ncb, joined, mainTid, once>>

(* callbacks: after the function, on that thread, once each, in reverse order of registration *)
AtExit(i, idx, on) ==
    /\ st[i] = "ended" /\ on = tid[i]
    /\ ncb[i] # <<>> /\ idx = ncb[i][Len(ncb[i])]                       \* the one registered last among those not yet run
    /\ ncb' = [ncb EXCEPT ![i] = SubSeq(@, 1, Len(@) - 1)]
    /\ UNCHANGED <<st, kind, tid, nreg, joined, mainTid, once>>

Finished(i) == st[i] = "ended" /\ ncb[i] = <<>>

(* aws_thread_call_once: the function runs exactly once per flag, with the argument of the call that ran it; no call *)
(* on that flag returns before the function has completed (callers that arrive meanwhile wait)                      *)
OnceRan(n, argok) ==
    /\ n \in Onces /\ once[n] = "no" /\ argok = 1
    /\ once' = [once EXCEPT ![n] = "running"]
    /\ UNCHANGED <<st, kind, tid, nreg, ncb, joined, mainTid>>
OnceEnd(n) ==
    /\ once[n] = "running" /\ once' = [once EXCEPT ![n] = "done"]
    /\ UNCHANGED <<st, kind, tid, nreg, ncb, joined, mainTid>>
OnceRet(n) == once[n] = "done" /\ UNCHANGED tvars

(* what a running thread sees of itself: its id is the one its aws_thread reports (and nobody else's), the name  *)
(* given at launch is the name it has; aws_thread_current_sleep(ns) returns no earlier than ns later             *)
SelfView(i, ideq, idmain, named, nameok, sleptok) ==
    /\ st[i] = "running" /\ ideq = 1 /\ idmain = 0 /\ sleptok = 1
    /\ (named = 1 => nameok = 1)
    /\ UNCHANGED tvars

(* join of a joinable thread returns only after the function and all its callbacks completed *)
JoinRet(i, rc) ==
    /\ kind[i] = "manual" /\ rc = 0 /\ Finished(i) /\ ~joined[i]
    /\ joined' = [joined EXCEPT ![i] = TRUE]
    /\ UNCHANGED <<st, kind, tid, nreg, ncb, mainTid, once>>

(* a thread cannot join itself: the call is refused and changes nothing - the launcher's join is still to come *)
SelfJoin(i, rc) == kind[i] = "manual" /\ st[i] # "none" /\ ~joined[i] /\ rc # 0 /\ UNCHANGED tvars

(* "Overrides how long, in nanoseconds, that aws_thread_join_all_managed will wait for threads to complete. A value of  *)
(* zero will result in an unbounded wait."                                                                           *)
SetJoinTimeout(ns) == jto' = WNorm(ns) /\ jt0' = jt0 /\ UNCHANGED tvars
JoinAllBegin(t) == jt0' = WNorm(t) /\ jto' = jto /\ UNCHANGED tvars

(* join-all reports success only after every managed thread has finished; the outstanding count is then zero.  With a *)
(* time-out in force it may give up instead - never before the time-out has elapsed - and a successful bounded call  *)
(* has returned by (about) its deadline.                                                                              *)
JoinAllRet(rc, count, t, uj) ==
    /\ IF rc = 0
       THEN /\ count <= Cardinality(Counted)            \* the managed threads are gone; late-comers may already be counted
            /\ \A i \in snap : part[i] \in {"out", "done"}
            /\ \A i \in Thr : kind[i] = "managed" => Finished(i)
            /\ ((~WIsZero(jto) /\ uj = 0) => WLt(t, WAdd(WAdd(jt0, jto), JoinSlack)))
       ELSE /\ ~WIsZero(jto)
            /\ WLe(WAdd(jt0, jto), t)
            \* ... and giving up does not take longer than succeeding would have been allowed to: whatever the threads that
            \* are still counted are doing (a long at-exit callback), the call is back by about its deadline
            /\ (uj = 0 => WLt(t, WAdd(WAdd(jt0, jto), JoinSlack)))
    /\ UNCHANGED tvars

(* end of the execution: everything launched has finished, every OS thread was joined, nothing leaked *)
EndOk(live, unjoined) ==
    /\ live = 0 /\ unjoined = 0
    /\ \A i \in Thr : st[i] # "none" => Finished(i)
    /\ \A i \in Thr : kind[i] = "manual" => joined[i]
    /\ UNCHANGED tvars
=============================================================================
