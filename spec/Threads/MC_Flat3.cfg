SPECIFICATION Spec
CONSTANTS N = 3
  Parent <- ParentFlat3
INVARIANTS NoDoubleJoin NoSelfJoin AtReturn PendingShort
