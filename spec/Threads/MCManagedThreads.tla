---- MODULE MCManagedThreads ----
EXTENDS ManagedThreads
ParentFlat3 == [i \in 1 .. 3 |-> 0]
ParentNest3 == [i \in 1 .. 3 |-> IF i = 3 THEN 1 ELSE 0]
ParentNest4 == [i \in 1 .. 4 |-> IF i = 3 THEN 1 ELSE IF i = 4 THEN 3 ELSE 0]
ParentFlat4 == [i \in 1 .. 4 |-> 0]
====
