--------------------------- MODULE ManagedThreads ---------------------------
(* Implementation-shaped model of the managed-thread join protocol (source/thread_shared.c and     *)
(* the tail of thread_fn in source/posix/thread.c):                                                *)
(*   launch       : count++ under the lock, then pthread_create                                    *)
(*   thread exit  : under the lock swap the pending-join list out and push self; then join every   *)
(*                  predecessor taken out, and for each: count-- and notify, under the lock        *)
(*   join_all     : loop { lock; wait until count <= 1; done := count = 0; swap pending out;       *)
(*                  unlock; join + decrement each taken out } until done                            *)
(* Critical sections without a wait are single steps (the mutex serialises them); the wait in       *)
(* join_all is split into lock / predicate / block / wake / re-lock. pthread_join(t) is enabled    *)
(* only once t has exited. Checked for every completion order: join_all returns only when every    *)
(* managed thread has exited and was joined exactly once and count = 0; nobody joins itself; no    *)
(* double join; no deadlock; (FairSpec) join_all returns.                                          *)
EXTENDS Naturals, Sequences, FiniteSets

CONSTANTS N,        \* threads 1..N
          Parent    \* [1..N -> 0..N]   0 = launched by main; otherwise launched from inside that thread's function

Th == 1 .. N
Children(p) == {c \in Th : Parent[c] = p}

VARIABLES pc,        \* [Th -> "unborn"|"counted"|"fn"|"pja"|"join"|"dec"|"exited"]
          todo,      \* [0..N -> set of children still to launch]   (index 0 = main)
          counted,   \* child whose count++ has happened but pthread_create not yet: [0..N -> 0..N]
          mylist,    \* [0..N -> Seq(Th)] predecessors taken out of the pending list, still to join
          count, pending, mtx, waiting,
          mpc, done,
          joinCount

vars == <<pc, todo, counted, mylist, count, pending, mtx, waiting, mpc, done, joinCount>>

Init ==
    /\ pc = [i \in Th |-> "unborn"] /\ todo = [p \in 0 .. N |-> Children(p)] /\ counted = [p \in 0 .. N |-> 0]
    /\ mylist = [p \in 0 .. N |-> <<>>] /\ count = 0 /\ pending = <<>> /\ mtx = "free" /\ waiting = FALSE
    /\ mpc = "launch" /\ done = FALSE /\ joinCount = [i \in Th |-> 0]

Notify == IF waiting THEN waiting' = FALSE /\ mpc' = "ja_rq" ELSE UNCHANGED <<waiting, mpc>>

(* launching (by main = 0 or by a running thread p): first the count, then the create *)
CanLaunch(p) == IF p = 0 THEN mpc = "launch" ELSE pc[p] = "fn"
LaunchCount(p) ==
    /\ CanLaunch(p) /\ counted[p] = 0 /\ todo[p] # {} /\ mtx = "free"
    /\ \E c \in todo[p] : counted' = [counted EXCEPT ![p] = c] /\ todo' = [todo EXCEPT ![p] = @ \ {c}]
    /\ count' = count + 1
    /\ UNCHANGED <<pc, mylist, pending, mtx, waiting, mpc, done, joinCount>>
LaunchCreate(p) ==
    /\ CanLaunch(p) /\ counted[p] # 0
    /\ pc' = [pc EXCEPT ![counted[p]] = "fn"] /\ counted' = [counted EXCEPT ![p] = 0]
    /\ UNCHANGED <<todo, mylist, count, pending, mtx, waiting, mpc, done, joinCount>>

(* thread i: function finished (after launching all its children), at-exit callbacks done *)
T_FnDone(i) ==
    /\ pc[i] = "fn" /\ todo[i] = {} /\ counted[i] = 0
    /\ pc' = [pc EXCEPT ![i] = "pja"]
    /\ UNCHANGED <<todo, counted, mylist, count, pending, mtx, waiting, mpc, done, joinCount>>
(* aws_thread_pending_join_add: swap the list out, push self *)
T_PendingAdd(i) ==
    /\ pc[i] = "pja" /\ mtx = "free"
    /\ mylist' = [mylist EXCEPT ![i] = pending] /\ pending' = <<i>>
    /\ pc' = [pc EXCEPT ![i] = "join"]
    /\ UNCHANGED <<todo, counted, count, mtx, waiting, mpc, done, joinCount>>
T_Join(i) ==
    /\ pc[i] = "join"
    /\ IF mylist[i] = <<>>
       THEN pc' = [pc EXCEPT ![i] = "exited"] /\ UNCHANGED <<mylist, joinCount>>
       ELSE /\ pc[Head(mylist[i])] = "exited"                         \* pthread_join blocks until then
            /\ joinCount' = [joinCount EXCEPT ![Head(mylist[i])] = @ + 1]
            /\ mylist' = [mylist EXCEPT ![i] = Tail(@)]
            /\ pc' = [pc EXCEPT ![i] = "dec"]
    /\ UNCHANGED <<todo, counted, count, pending, mtx, waiting, mpc, done>>
T_Dec(i) ==
    /\ pc[i] = "dec" /\ mtx = "free"
    /\ count' = count - 1 /\ Notify
    /\ pc' = [pc EXCEPT ![i] = "join"]
    /\ UNCHANGED <<todo, counted, mylist, pending, mtx, done, joinCount>>

(* main *)
M_LaunchDone == /\ mpc = "launch" /\ todo[0] = {} /\ counted[0] = 0 /\ mpc' = "ja_lock"
                /\ UNCHANGED <<pc, todo, counted, mylist, count, pending, mtx, waiting, done, joinCount>>
M_Lock == /\ mpc \in {"ja_lock", "ja_rq"} /\ mtx = "free" /\ mtx' = "main" /\ mpc' = "ja_pred"
          /\ UNCHANGED <<pc, todo, counted, mylist, count, pending, waiting, done, joinCount>>
M_Pred == /\ mpc = "ja_pred"
          /\ IF count <= 1
             THEN /\ done' = (count = 0) /\ mylist' = [mylist EXCEPT ![0] = pending] /\ pending' = <<>>
                  /\ mtx' = "free" /\ mpc' = "ja_join" /\ UNCHANGED waiting
             ELSE /\ mtx' = "free" /\ waiting' = TRUE /\ mpc' = "ja_wait" /\ UNCHANGED <<done, mylist, pending>>
          /\ UNCHANGED <<pc, todo, counted, count, joinCount>>
M_Join == /\ mpc = "ja_join"
          /\ IF mylist[0] = <<>>
             THEN mpc' = (IF done THEN "finished" ELSE "ja_lock") /\ UNCHANGED <<mylist, joinCount>>
             ELSE /\ pc[Head(mylist[0])] = "exited"
                  /\ joinCount' = [joinCount EXCEPT ![Head(mylist[0])] = @ + 1]
                  /\ mylist' = [mylist EXCEPT ![0] = Tail(@)]
                  /\ mpc' = "ja_dec"
          /\ UNCHANGED <<pc, todo, counted, count, pending, mtx, waiting, done>>
M_Dec == /\ mpc = "ja_dec" /\ mtx = "free" /\ count' = count - 1 /\ mpc' = "ja_join"
         /\ UNCHANGED <<pc, todo, counted, mylist, pending, mtx, waiting, done, joinCount>>

Finished == mpc = "finished"
Done == Finished /\ UNCHANGED vars

TNext(i) == LaunchCount(i) \/ LaunchCreate(i) \/ T_FnDone(i) \/ T_PendingAdd(i) \/ T_Join(i) \/ T_Dec(i)
MNext == LaunchCount(0) \/ LaunchCreate(0) \/ M_LaunchDone \/ M_Lock \/ M_Pred \/ M_Join \/ M_Dec
Next == MNext \/ (\E i \in Th : TNext(i)) \/ Done
Spec == Init /\ [][Next]_vars
FairSpec == Spec /\ SF_vars(MNext) /\ \A i \in Th : SF_vars(TNext(i))

NoDoubleJoin == \A i \in Th : joinCount[i] <= 1
NoSelfJoin == \A i \in Th : \A k \in 1 .. Len(mylist[i]) : mylist[i][k] # i
AtReturn == Finished => (count = 0 /\ \A i \in Th : pc[i] = "exited" /\ joinCount[i] = 1)
PendingShort == Len(pending) <= 1
JoinAllReturns == <>Finished
=============================================================================
