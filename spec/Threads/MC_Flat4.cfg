SPECIFICATION Spec
CONSTANTS N = 4
  Parent <- ParentFlat4
INVARIANTS NoDoubleJoin NoSelfJoin AtReturn PendingShort
