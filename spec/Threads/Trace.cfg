SPECIFICATION TSpec
CONSTANTS WBase = 32768
  Thr = {1, 2, 3, 4, 5, 6, 7, 8}
POSTCONDITION TraceAccepted
CHECK_DEADLOCK FALSE
