SPECIFICATION Spec
CONSTANTS N = 3
  Parent <- ParentNest3
INVARIANTS NoDoubleJoin NoSelfJoin AtReturn PendingShort
