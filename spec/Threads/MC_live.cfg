SPECIFICATION FairSpec
CONSTANTS N = 3
  Parent <- ParentNest3
PROPERTY JoinAllReturns
