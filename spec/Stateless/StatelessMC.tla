----------------------------- MODULE StatelessMC -----------------------------
(* Why the contract of Stateless.tla needs every interleaving and not one run: a function that stages its input in a     *)
(* scratch area is indistinguishable from a pure one as long as the scratch area is private to the call (Shared = FALSE);  *)
(* make it static (Shared = TRUE) and two calls that overlap can report each other's data.  Threads perform               *)
(* `stage; compute` on their operations; TLC explores all interleavings.  With Shared = FALSE the contract holds, with     *)
(* Shared = TRUE it must be refuted (checks/c04.py runs both).                                                            *)
EXTENDS Stateless, Sequences

CONSTANTS Thr, Shared, Prog       \* Prog: [Thr -> Seq(Ops)]
VARIABLES pc, ip, scratch, bad
vars == <<val, pc, ip, scratch, bad>>

F(i) == i * 7 + 3                  \* the outcome of operation i
Slot(t) == IF Shared THEN 0 ELSE t

MInit == /\ SInit /\ pc = [t \in Thr |-> "stage"] /\ ip = [t \in Thr |-> 1]
         /\ scratch = [s \in {0} \cup Thr |-> 0] /\ bad = FALSE
Running(t) == ip[t] <= Len(Prog[t])
Stage(t) == /\ Running(t) /\ pc[t] = "stage"
            /\ scratch' = [scratch EXCEPT ![Slot(t)] = Prog[t][ip[t]]]
            /\ pc' = [pc EXCEPT ![t] = "compute"] /\ UNCHANGED <<val, ip, bad>>
Compute(t) == /\ Running(t) /\ pc[t] = "compute"
              /\ LET i == Prog[t][ip[t]]
                     dg == F(scratch[Slot(t)])
                 IN IF ENABLED Outcome(t, i, dg) THEN Outcome(t, i, dg) /\ bad' = bad
                    ELSE bad' = TRUE /\ UNCHANGED val
              /\ pc' = [pc EXCEPT ![t] = "stage"] /\ ip' = [ip EXCEPT ![t] = @ + 1] /\ UNCHANGED scratch
Done == (\A t \in Thr : ~Running(t)) /\ UNCHANGED vars
StageStep == \E t \in Thr : Stage(t)
ComputeStep == \E t \in Thr : Compute(t)
MNext == StageStep \/ ComputeStep \/ Done
MSpec == MInit /\ [][MNext]_vars
NotBad == ~bad
P2 == [t \in Thr |-> IF t = 1 THEN <<1, 2, 1>> ELSE IF t = 2 THEN <<2, 3>> ELSE <<3, 1>>]
=============================================================================
