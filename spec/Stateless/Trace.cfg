SPECIFICATION TSpec
CONSTANTS
  Ops = {1, 2, 3, 4, 5, 6, 7, 8, 9, 10, 11, 12, 13, 14, 15, 16, 17, 18, 19, 20, 21, 22, 23, 24}
POSTCONDITION TraceAccepted
CHECK_DEADLOCK FALSE
