------------------------------ MODULE Stateless ------------------------------
(* Parsers and codecs that take their whole input as an argument (XML, URI, percent-coding, JSON, CBOR, date-time) keep   *)
(* no state between calls as far as a caller can tell.  The contract that follows from it, over what a caller can         *)
(* observe: an operation (function + input + options) has ONE outcome - whichever thread performs it, whatever other      *)
(* threads are doing at the same time, and however often it is repeated.  An outcome is everything the call reported      *)
(* (return code, error, callbacks with their arguments, output bytes), condensed by the harness into a number.            *)
EXTENDS Naturals

CONSTANTS Ops          \* operation ids of an execution

VARIABLE val           \* [Ops -> outcome seen so far | None]
None == 0 - 1

SInit == val = [i \in Ops |-> None]

(* thread k (0 = the main thread, alone, after the others have finished) performed operation i and observed outcome dg *)
Outcome(k, i, dg) ==
    /\ i \in Ops /\ dg >= 0
    /\ val[i] = None \/ val[i] = dg
    /\ val' = [val EXCEPT ![i] = dg]

OneOutcome == \A i \in Ops : val[i] = None \/ val[i] >= 0
=============================================================================
