SPECIFICATION MSpec
CONSTANTS
  Ops = {1, 2, 3}
  Thr = {1, 2, 3}
  Shared = TRUE
  Prog <- P2
INVARIANTS NotBad OneOutcome
