--------------------------- MODULE StatelessTrace ---------------------------
(* Trace validation of harness/stateless_scenario.c: every Res (a thread, others running) and Ref (main thread alone)     *)
(* event is an Outcome of Stateless.tla.                                                                                  *)
EXTENDS Stateless, TraceCommon
VARIABLES l
Ev == TraceLog[l]
TReset == Ev.e = "Reset" /\ val' = [i \in Ops |-> None]
TRes == Ev.e = "Res" /\ Outcome(Ev.k, Ev.i, Ev.dg)
TRef == Ev.e = "Ref" /\ Outcome(0, Ev.i, Ev.dg)
TEnd == Ev.e = "End" /\ Ev.live = 0 /\ Ev.unjoined = 0 /\ UNCHANGED val
TNext == l <= TraceLen /\ l' = l + 1 /\ (TReset \/ TRes \/ TRef \/ TEnd)
TSpec == (l = 1 /\ SInit) /\ [][TNext]_<<val, l>>
=============================================================================
