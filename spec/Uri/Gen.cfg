SPECIFICATION MCSpec
CONSTANTS WBase = 32768
  SchemeOpts <- SchemeFull
  UiOpts <- UiFull
  HostOpts <- HostFull
  PortOpts <- PortFull
  PathOpts <- PathFull
  QueryOpts <- QueryFull
  ByteAlphabet <- AlphaBytes
  MaxBytes = 0
  GenMode = TRUE
INVARIANT Emit
CHECK_DEADLOCK FALSE
