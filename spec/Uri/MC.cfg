SPECIFICATION MCSpec
CONSTANTS WBase = 32768
  SchemeOpts <- SchemeFull
  UiOpts <- UiSmall
  HostOpts <- HostSmall
  PortOpts <- PortSmall
  PathOpts <- PathFull
  QueryOpts <- QuerySmall
  ByteAlphabet <- AlphaBytes
  MaxBytes = 3
  GenMode = FALSE
INVARIANTS InvSlices InvDelims InvPort InvQuery InvRoundTrip InvShape InvConcat InvParamStricter InvDecText InvScanner
CHECK_DEADLOCK FALSE
