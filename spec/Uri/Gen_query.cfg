SPECIFICATION MCSpec
CONSTANTS WBase = 32768
  SchemeOpts <- SchemeOne
  UiOpts <- UiOne
  HostOpts <- HostOne
  PortOpts <- PortOne
  PathOpts <- PathOne
  QueryOpts <- QueryItems
  ByteAlphabet <- AlphaBytes
  MaxBytes = 0
  GenMode = TRUE
INVARIANT Emit
CHECK_DEADLOCK FALSE
