------------------------------- MODULE UriTrace -------------------------------
(* Trace validation for C13.  Every call of the real library recorded by harness/uri_adapter.c is   *)
(* one event; it must be an instance of the corresponding action of Uri.tla with exactly the logged  *)
(* arguments and results.  Parse / Build events carry the components the driver assembled the input  *)
(* from (the specification checks that they render to the text that was really parsed and derives    *)
(* the expected views from them); Query events carry the items of the query the object holds.        *)
(* Views are logged as o (offset into the URI's own copy; -1 null, -2 outside), n (length), b (bytes). *)
EXTENDS Uri, TraceCommon

VARIABLES l,
          devd     \* the object holds the result of a call that only a known finding explains: its query is not judged
Ev == TraceLog[l]

(* deviations of known findings (DESIGN 3.3) are enabled from the environment by checks/c13.py, which reads
   known_findings.txt; with nothing enabled this is the strict specification *)
DevOn(name) == ("VERIF_DEV_" \o name) \in DOMAIN IOEnv

CompOf(e) == [hs |-> e.hs = 1, sch |-> e.sch, hu |-> e.hu = 1, usr |-> e.usr, hw |-> e.hw = 1, pw |-> e.pw,
              host |-> e.host, v6 |-> e.v6 = 1, hp |-> e.hp = 1, port |-> e.port, path |-> e.path, hq |-> e.hq = 1, q |-> e.q]
(* builder options; the port is given as decimal digits ("0" = none) and the adapter logs the number it passed *)
OptsOf(e) == [sch |-> e.sch, host |-> e.host, v6 |-> e.v6 = 1, port |-> IF e.port = <<48>> THEN <<>> ELSE e.port,
              path |-> e.path, qm |-> e.qm, qs |-> e.qs, params |-> e.params]
ItemsOf(e) == [i \in 1..Len(e.items) |-> [eq |-> e.items[i].eq = 1, k |-> e.items[i].k, v |-> e.items[i].v]]

TParse == Ev.e = "Parse" /\ Parse(CompOf(Ev), Ev.text, Ev.rc, Ev) /\ devd' = FALSE
TBuild == /\ Ev.e = "Build"
          /\ Chk(WEq(PortW([port |-> Ev.port]), Ev.portw))          \* adapter obligation: digits -> uint32_t
          /\ Build(OptsOf(Ev), Ev.rc, Ev) /\ devd' = FALSE
TBuildFree == /\ Ev.e = "BuildFree"
              /\ Chk(WEq(PortW([port |-> Ev.port]), Ev.portw))
              /\ BuildFree(OptsOf(Ev), Ev.rc, Ev) /\ devd' = TRUE
TQuery == Ev.e = "Query" /\ ~devd /\ Query(ItemsOf(Ev), Ev.tot, Ev.it, Ev.more = 1, Ev.rc, Ev.ls) /\ UNCHANGED devd
TEnc == Ev.e = "Enc" /\ EncCall(Ev.kind = "path", Ev.inp, Ev.pre, Ev.rc, Ev.out) /\ UNCHANGED devd
TDec == Ev.e = "Dec" /\ DecCall(Ev.src = "last", Ev.inp, Ev.pre, Ev.rc, Ev.out) /\ UNCHANGED devd
TReset == Ev.e = "Reset" /\ uri' = NoUri /\ enc' = NoEnc /\ devd' = FALSE
TEnd == Ev.e = "End" /\ Ev.live = 0 /\ UNCHANGED <<uri, enc, devd>>

-----------------------------------------------------------------------------
(* Known finding "SlashInQuery": s_parse_authority ends the authority at the first '/' even when a '?' comes      *)
(* first, so a URI with an empty path whose query contains '/' is misread (or refused when a port is present).      *)
(* The deviation explains a Parse / Build event only if the strict specification refuses it and the components      *)
(* have exactly that shape; what the object then holds is not judged until the next Parse / Build / Reset.          *)
SlashShape(c) == c.path = <<>> /\ c.hq /\ \E i \in 1..Len(c.q) : c.q[i] = 47
Dev_SlashInQuery ==
    /\ DevOn("SlashInQuery")
    /\ \/ /\ Ev.e = "Parse"
          /\ LET c == CompOf(Ev)
             IN Chk(WellFormed(c) /\ Ev.text = Text(c) /\ SlashShape(c) /\ ~ParseOutcome(c, Ev.rc, Ev))
       \/ /\ Ev.e = "Build"
          /\ LET c == BuildComp(OptsOf(Ev))
             IN Chk(BuildWellFormed(OptsOf(Ev)) /\ SlashShape(c) /\ ~(Ev.rc = 0 /\ BuildViewsOK(c, Ev)))
    /\ PrintT(<<"FIRED", "SlashInQuery", Ev.e, Ev.rc>>)
    /\ uri' = NoUri /\ devd' = TRUE /\ UNCHANGED enc
Dev_QueryAfter == Ev.e = "Query" /\ devd /\ UNCHANGED <<uri, enc, devd>>

TNext == /\ l <= TraceLen /\ l' = l + 1
         /\ \/ TReset \/ TParse \/ TBuild \/ TBuildFree \/ TQuery \/ TEnc \/ TDec \/ TEnd \/ Dev_SlashInQuery \/ Dev_QueryAfter
TInit == l = 1 /\ UInit /\ devd = FALSE
TSpec == TInit /\ [][TNext]_<<l, uri, enc, devd>>
=============================================================================
