SPECIFICATION MCSpec
CONSTANTS WBase = 32768
  SchemeOpts <- SchemeOne
  UiOpts <- UiOne
  HostOpts <- HostOne
  PortOpts <- PortOne
  PathOpts <- PathOne
  QueryOpts <- QueryItems
  ByteAlphabet <- AlphaBytes
  MaxBytes = 4
  GenMode = FALSE
INVARIANTS InvSlices InvDelims InvPort InvQuery InvRoundTrip InvShape InvConcat InvParamStricter InvDecText InvScanner
CHECK_DEADLOCK FALSE
