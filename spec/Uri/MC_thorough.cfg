SPECIFICATION MCSpec
CONSTANTS WBase = 32768
  SchemeOpts <- SchemeFull
  UiOpts <- UiFull
  HostOpts <- HostFull
  PortOpts <- PortFull
  PathOpts <- PathFull
  QueryOpts <- QueryFull
  ByteAlphabet <- AlphaBytes
  MaxBytes = 4
  GenMode = FALSE
INVARIANTS InvSlices InvDelims InvPort InvQuery InvRoundTrip InvShape InvConcat InvParamStricter InvDecText InvScanner
CHECK_DEADLOCK FALSE
