SPECIFICATION MCSpec
CONSTANTS WBase = 32768
  SchemeOpts <- SchemeSmall
  UiOpts <- UiSmall
  HostOpts <- HostSmall
  PortOpts <- PortSmall
  PathOpts <- PathSmall
  QueryOpts <- QuerySmall
  ByteAlphabet <- AlphaBytes
  MaxBytes = 0
  GenMode = TRUE
INVARIANT Emit
CHECK_DEADLOCK FALSE
