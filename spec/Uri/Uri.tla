--------------------------------- MODULE Uri ---------------------------------
(* C13: URI parsing, building and percent-coding (source/uri.c, include/aws/common/uri.h).          *)
(*                                                                                                  *)
(* A URI is described by its COMPONENTS, a record c:                                                *)
(*   hs, sch   scheme present? / its text          ("sch://")                                       *)
(*   hu, usr   user-info present? / user           ("usr@", "usr:pw@")                              *)
(*   hw, pw    password present? / its text        (only with hu)                                   *)
(*   host, v6  host text / is it a bracketed literal ("[host]")                                    *)
(*   hp, port  port present? / its decimal digits  (":port")                                        *)
(*   path      "" or "/..."                                                                         *)
(*   hq, q     query present? / its text           ("?q")                                           *)
(* Text(c) renders the components; Expected(c) says, as a function of the components only (no       *)
(* parser is written down here), which views a correct parse of Text(c) reports.  The actions are   *)
(* relations between the arguments of one public call, what the call reported and the abstract      *)
(* state (which URI the object currently holds, what the last encoder call produced); UriMC.tla     *)
(* explores them on small component sets, UriTrace.tla binds them to recorded calls.                *)
(* Texts are sequences of byte values 0..255.  Port numbers exceed TLC's integers: Wide naturals.   *)
EXTENDS Wide, Integers, FiniteSets

VARIABLES uri,     \* what the URI object holds: [has |-> FALSE] or [has |-> TRUE, q |-> query text, hq |-> query present]
          enc      \* [has |-> BOOLEAN, x |-> bytes given to the last successful encoder call]
uvars == <<uri, enc>>

NoUri == [has |-> FALSE, hq |-> FALSE, q |-> <<>>]
NoEnc == [has |-> FALSE, x |-> <<>>]
UInit == uri = NoUri /\ enc = NoEnc
Chk(b) == b = TRUE      \* evaluate as a plain expression (TLC would split an action-level disjunction into branches)

-----------------------------------------------------------------------------
(* character classes of RFC 3986 (the domain the property is claimed for) *)
Alnum(b) == (b >= 48 /\ b <= 57) \/ (b >= 65 /\ b <= 90) \/ (b >= 97 /\ b <= 122)
Digit(b) == b >= 48 /\ b <= 57
Unreserved(b) == Alnum(b) \/ b \in {45, 46, 95, 126}                            \* - . _ ~
SubDelim(b) == b \in {33, 36, 38, 39, 40, 41, 42, 43, 44, 59, 61}              \* ! $ & ' ( ) * + , ; =
SchemeCh(b) == Alnum(b) \/ b \in {43, 45, 46}
UserCh(b) == Unreserved(b) \/ SubDelim(b) \/ b = 37
PwCh(b) == UserCh(b) \/ b = 58
HostCh(b) == Unreserved(b) \/ SubDelim(b) \/ b = 37
V6Ch(b) == Unreserved(b) \/ SubDelim(b) \/ b = 58
PathCh(b) == Unreserved(b) \/ SubDelim(b) \/ b \in {37, 58, 64, 47}
QueryCh(b) == PathCh(b) \/ b = 63

-----------------------------------------------------------------------------
(* rendering *)
SchemeText(c) == IF c.hs THEN c.sch \o <<58, 47, 47>> ELSE <<>>
UiText(c) == IF c.hu THEN c.usr \o (IF c.hw THEN <<58>> \o c.pw ELSE <<>>) ELSE <<>>
HostText(c) == IF c.v6 THEN <<91>> \o c.host \o <<93>> ELSE c.host
AuthText(c) == (IF c.hu THEN UiText(c) \o <<64>> ELSE <<>>) \o HostText(c) \o (IF c.hp THEN <<58>> \o c.port ELSE <<>>)
PQText(c) == c.path \o (IF c.hq THEN <<63>> \o c.q ELSE <<>>)
Text(c) == SchemeText(c) \o AuthText(c) \o PQText(c)

FirstIdx(s, b) == IF \E i \in 1..Len(s) : s[i] = b THEN CHOOSE i \in 1..Len(s) : s[i] = b /\ \A j \in 1..(i - 1) : s[j] # b ELSE 0

(* The components the property speaks about.  Without a scheme the text has no marker that separates *)
(* "host:port" from "scheme:", the library (and RFC 3986) read a ':' that is directly followed by '/' *)
(* as the end of a scheme: such texts have no unique reading and are outside the claim (NoSchemeOK). *)
NoSchemeOK(c) == LET t == Text(c)
                     i == FirstIdx(t, 58)
                 IN IF c.hs \/ i = 0 \/ i = Len(t) THEN TRUE ELSE t[i + 1] # 47
WellFormed(c) ==
    /\ (\A i \in 1..Len(c.sch) : SchemeCh(c.sch[i])) /\ (\A i \in 1..Len(c.usr) : UserCh(c.usr[i]))
    /\ (\A i \in 1..Len(c.pw) : PwCh(c.pw[i]))
    /\ (\A i \in 1..Len(c.host) : IF c.v6 THEN V6Ch(c.host[i]) ELSE HostCh(c.host[i]))
    /\ (\A i \in 1..Len(c.port) : Digit(c.port[i])) /\ (\A i \in 1..Len(c.path) : PathCh(c.path[i]))
    /\ (\A i \in 1..Len(c.q) : QueryCh(c.q[i]))
    /\ (~c.hs => c.sch = <<>>) /\ (~c.hu => (c.usr = <<>> /\ ~c.hw)) /\ (~c.hw => c.pw = <<>>)
    /\ (~c.hp => c.port = <<>>) /\ (~c.hq => c.q = <<>>)
    /\ (c.path = <<>> \/ c.path[1] = 47)
    /\ NoSchemeOK(c)

(* port value *)
(* digits are folded four at a time (a chunk is a native integer below 10^4): short recursion for TLC *)
DigitsVal(s, a, b) == LET v[i \in (a - 1)..b] == IF i = a - 1 THEN 0 ELSE v[i - 1] * 10 + (s[i] - 48) IN v[b]
PortW(c) == LET n == Len(c.port)
                first == IF n % 4 = 0 THEN 4 ELSE n % 4
                k == (n + 3) \div 4
                lo(j) == IF j = 1 THEN 1 ELSE first + 4 * (j - 2) + 1
                hi(j) == IF j = 1 THEN first ELSE first + 4 * (j - 1)
                acc[j \in 0..k] == IF j = 0 THEN <<>> ELSE WAdd(WMulLimb(acc[j - 1], 10000), WFromNat(DigitsVal(c.port, lo(j), hi(j))))
            IN acc[k]
PortFits(c) == WLe(PortW(c), WMaxBits(32))
(* a port beyond 2^32-1 cannot be reported by a uint32_t: the only answer that is not a wrong port is a refusal *)
MustFail(c) == c.hp /\ ~PortFits(c)
(* nothing at all after the scheme: neither authority, path nor query. Whether that is a URI is left open. *)
Hollow(c) == AuthText(c) = <<>> /\ PQText(c) = <<>>

(* expected views: offset into the URI's own copy (0-based) and bytes *)
V(o, b) == [o |-> o, b |-> b]
Expected(c) ==
    LET a == Len(SchemeText(c))
        h == a + (IF c.hu THEN Len(UiText(c)) + 1 ELSE 0) + (IF c.v6 THEN 1 ELSE 0)
        p == a + Len(AuthText(c))
    IN [sch |-> V(0, c.sch), auth |-> V(a, AuthText(c)), ui |-> V(a, UiText(c)), usr |-> V(a, c.usr),
        pw |-> V(a + Len(c.usr) + 1, c.pw), host |-> V(h, c.host), path |-> V(p, c.path),
        q |-> V(p + Len(c.path) + 1, c.q), pq |-> V(p, PQText(c)),
        port |-> IF c.hp THEN PortW(c) ELSE <<>>]

(* a reported view [o, n, b] lies inside the object's own copy of `tot` bytes (an empty view may be a null pointer: o = -1) *)
Inside(v, tot) == IF v.n = 0 /\ v.o = -1 THEN TRUE ELSE v.o >= 0 /\ v.o + v.n <= tot
Same(v, want, tot) == v.n = Len(want) /\ v.b = want /\ Inside(v, tot)

(* rep = [tot, str, vsch, vauth, vui, vusr, vpw, vhost, vpath, vq, vpq, vport] *)
ViewsOK(c, rep) ==
    LET x == Expected(c)
        t == rep.tot
    IN /\ rep.str = Text(c) /\ t = Len(rep.str)                            \* "uri_str is always allocated and filled in"
       /\ Same(rep.vsch, x.sch.b, t) /\ Same(rep.vauth, x.auth.b, t) /\ Same(rep.vui, x.ui.b, t)
       /\ Same(rep.vusr, x.usr.b, t) /\ Same(rep.vpw, x.pw.b, t) /\ Same(rep.vhost, x.host.b, t)
       /\ Same(rep.vpath, x.path.b, t) /\ Same(rep.vq, x.q.b, t)
       \* "the thing you send across the wire": path and query; a lone trailing '?' may or may not be part of it
       /\ IF c.hq /\ c.q = <<>> /\ rep.vpq.n = Len(c.path) THEN Same(rep.vpq, c.path, t) ELSE Same(rep.vpq, x.pq.b, t)
       /\ WEq(rep.vport, x.port)

(* what a call that is given Text(c) may report *)
ParseOutcome(c, rc, rep) ==
    IF MustFail(c) THEN rc # 0
    ELSE IF Hollow(c) THEN (IF rc = 0 THEN ViewsOK(c, rep) ELSE TRUE)
    ELSE rc = 0 /\ ViewsOK(c, rep)

Holds(c, rc) == IF rc = 0 THEN [has |-> TRUE, hq |-> c.hq, q |-> c.q] ELSE NoUri

(* aws_uri_init_parse(text): text was assembled from c *)
Parse(c, text, rc, rep) ==
    /\ Chk(WellFormed(c) /\ text = Text(c))
    /\ Chk(ParseOutcome(c, rc, rep))
    /\ uri' = Holds(c, rc) /\ UNCHANGED enc

-----------------------------------------------------------------------------
(* builder: options = scheme (empty = none), host text as it appears in the URI, port number (0 = none), path, and   *)
(* either nothing, a query string, or a list of params [k, v] rendered "k=v" joined with '&'.                         *)
RECURSIVE JoinAmp(_)
JoinAmp(ss) == IF ss = <<>> THEN <<>> ELSE IF Len(ss) = 1 THEN ss[1] ELSE ss[1] \o <<38>> \o JoinAmp(Tail(ss))
ParamText(p) == p.k \o <<61>> \o p.v
(* o = [sch, host, v6, port (canonical digits, <<>> for 0), path, qm ("N" | "S" | "L"), qs, params] *)
BuildComp(o) ==
    LET qtext == IF o.qm = "S" THEN o.qs ELSE IF o.qm = "L" THEN JoinAmp([i \in 1..Len(o.params) |-> ParamText(o.params[i])]) ELSE <<>>
    IN [hs |-> o.sch # <<>>, sch |-> o.sch, hu |-> FALSE, usr |-> <<>>, hw |-> FALSE, pw |-> <<>>,
        host |-> o.host, v6 |-> o.v6, hp |-> o.port # <<>>, port |-> o.port, path |-> o.path,
        hq |-> qtext # <<>>, q |-> qtext]
(* the options a caller may pass: canonical port digits, a value that fits, params that survive a round trip through  *)
(* the text ('&' and '=' are the separators), no '?' in front of the query string                                     *)
BuildWellFormed(o) ==
    /\ WellFormed(BuildComp(o))
    /\ (o.port # <<>> => (o.port[1] # 48 /\ PortFits(BuildComp(o))))
    /\ (o.qm = "S" => o.params = <<>>) /\ (o.qm = "L" => o.qs = <<>>) /\ (o.qm = "N" => (o.qs = <<>> /\ o.params = <<>>))
    /\ \A i \in 1..Len(o.params) : (\A j \in 1..Len(o.params[i].k) : o.params[i].k[j] \notin {38, 61})
                                 /\ (\A j \in 1..Len(o.params[i].v) : o.params[i].v[j] # 38)
(* "parses back to the components it was built from": the views are those of the components; the text itself is   *)
(* only required to be some text whose parse gives these views (e.g. an empty param list may or may not leave a    *)
(* trailing '?').                                                                                                   *)
BuildViewsOK(c, rep) ==
    LET x == Expected(c)
        t == rep.tot
    IN /\ t = Len(rep.str)
       /\ Same(rep.vsch, x.sch.b, t) /\ Same(rep.vauth, x.auth.b, t) /\ Same(rep.vui, <<>>, t)
       /\ Same(rep.vusr, <<>>, t) /\ Same(rep.vpw, <<>>, t) /\ Same(rep.vhost, x.host.b, t)
       /\ Same(rep.vpath, x.path.b, t) /\ Same(rep.vq, x.q.b, t)
       /\ IF x.q.b = <<>> /\ rep.vpq.n = Len(c.path) + 1 THEN Same(rep.vpq, c.path \o <<63>>, t) ELSE Same(rep.vpq, x.pq.b, t)
       /\ WEq(rep.vport, x.port)
Build(o, rc, rep) ==
    /\ Chk(BuildWellFormed(o))
    /\ LET c == BuildComp(o)
       IN /\ Chk(IF Hollow(c) THEN (IF rc = 0 THEN BuildViewsOK(c, rep) ELSE TRUE) ELSE rc = 0 /\ BuildViewsOK(c, rep))
          /\ uri' = Holds(c, rc)
    /\ UNCHANGED enc

(* A host text the parser cannot read back as the host (a bare IPv6 literal, a host with '@' in it ...): "parses back"  *)
(* cannot be asked, and the builder may refuse.  But when it reports success nothing that was given may be missing:   *)
(* the text is  [scheme "://"] X [":" port] path ["?" query]  with the host inside X and at most two bytes around it  *)
(* (a builder that brackets a bare literal is as good as one that does not).  What the object then holds is not      *)
(* judged.                                                                                                            *)
IsInfix(s, t) == \E i \in 0..(Len(t) - Len(s)) : SubSeq(t, i + 1, i + Len(s)) = s
BuildFreeTextOK(o, str) ==
    LET c == BuildComp(o)
        pre == IF o.sch # <<>> THEN o.sch \o <<58, 47, 47>> ELSE <<>>
        tail == (IF o.port # <<>> THEN <<58>> \o o.port ELSE <<>>) \o o.path \o (IF c.q # <<>> THEN <<63>> \o c.q ELSE <<>>)
    IN \E extra \in 0..2, opt \in 0..1 :
          LET n == Len(pre) + Len(o.host) + extra + Len(tail) + opt
          IN /\ Len(str) = n
             /\ SubSeq(str, 1, Len(pre)) = pre
             /\ SubSeq(str, n - opt - Len(tail) + 1, n - opt) = tail
             /\ (opt = 1 => (o.qm = "L" /\ c.q = <<>> /\ str[n] = 63))
             /\ IsInfix(o.host, SubSeq(str, Len(pre) + 1, Len(pre) + Len(o.host) + extra))
BuildFree(o, rc, rep) ==
    /\ Chk((o.qm = "S" => o.params = <<>>) /\ (o.qm = "L" => o.qs = <<>>) /\ (o.qm = "N" => (o.qs = <<>> /\ o.params = <<>>)))
    /\ Chk(o.port # <<>> => (o.port[1] # 48 /\ PortFits(BuildComp(o))))
    /\ Chk(rc = 0 => (rep.tot = Len(rep.str) /\ BuildFreeTextOK(o, rep.str)))
    /\ uri' = NoUri /\ UNCHANGED enc

-----------------------------------------------------------------------------
(* query string = items joined with '&'; an item is [eq, k, v]: "k" (eq = FALSE, v = <<>>) or "k=v".  A blank item  *)
(* (no '=' and an empty key) stands for nothing between two '&'.  Iteration yields the non-blank items in order.   *)
ItemText(it) == IF it.eq THEN it.k \o <<61>> \o it.v ELSE it.k
ItemOK(it) == /\ \A j \in 1..Len(it.k) : it.k[j] \notin {38, 61}
              /\ \A j \in 1..Len(it.v) : it.v[j] # 38
              /\ (~it.eq => it.v = <<>>)
Blank(it) == ItemText(it) = <<>>
QueryText(items) == JoinAmp([i \in 1..Len(items) |-> ItemText(items[i])])
(* offset of item i inside the query text *)
ItemOff(items, i) == LET s[j \in 0..(i - 1)] == IF j = 0 THEN 0 ELSE s[j - 1] + Len(ItemText(items[j])) + 1 IN s[i - 1]
NonBlankIdx(items) == {i \in 1..Len(items) : ~Blank(items[i])}
RECURSIVE SortedSeq(_)
SortedSeq(S) == IF S = {} THEN <<>> ELSE LET m == CHOOSE x \in S : \A y \in S : x <= y IN <<m>> \o SortedSeq(S \ {m})
(* expected pairs: key / value bytes and their offsets inside the query text *)
Pairs(items) ==
    LET idx == SortedSeq(NonBlankIdx(items))
    IN [n \in 1..Len(idx) |->
          LET i == idx[n]
              o == ItemOff(items, i)
          IN [k |-> V(o, items[i].k), v |-> V(o + Len(items[i].k) + (IF items[i].eq THEN 1 ELSE 0), items[i].v)]]
(* a reported list of params [k |-> view, v |-> view] equals the expected pairs and lies inside the URI's copy *)
PairsOK(items, got, tot) ==
    LET want == Pairs(items)
    IN /\ Len(got) = Len(want)
       /\ \A n \in 1..Len(want) : Same(got[n].k, want[n].k.b, tot) /\ Same(got[n].v, want[n].v.b, tot)
(* aws_uri_query_string_next_param until it returns false (it, more = it did not stop) and aws_uri_query_string_params (rc, ls) *)
Query(items, tot, it, more, rc, ls) ==
    /\ uri.has
    /\ Chk(\A i \in 1..Len(items) : ItemOK(items[i]))
    /\ Chk(QueryText(items) = uri.q)                 \* the annotation describes the URI the object holds
    /\ Chk(~more /\ PairsOK(items, it, tot))
    /\ Chk(rc = 0 /\ PairsOK(items, ls, tot))        \* the list form agrees with the iteration
    /\ UNCHANGED uvars

-----------------------------------------------------------------------------
(* percent coding on byte sequences *)
HexU(v) == IF v < 10 THEN 48 + v ELSE 55 + v
UpperHex(b) == (b >= 48 /\ b <= 57) \/ (b >= 65 /\ b <= 70)
HexVal(b) == IF b >= 48 /\ b <= 57 THEN b - 48 ELSE IF b >= 65 /\ b <= 70 THEN b - 55 ELSE IF b >= 97 /\ b <= 102 THEN b - 87 ELSE -1
Plain(b, isPath) == IF Unreserved(b) THEN TRUE ELSE isPath /\ b = 47
EncByte(b, isPath) == IF Plain(b, isPath) THEN <<b>> ELSE <<37, HexU(b \div 16), HexU(b % 16)>>
(* halves are encoded separately: logarithmic nesting for TLC *)
RECURSIVE Enc(_, _)
Enc(x, isPath) == IF Len(x) = 0 THEN <<>>
                  ELSE IF Len(x) = 1 THEN EncByte(x[1], isPath)
                  ELSE LET h == Len(x) \div 2 IN Enc(SubSeq(x, 1, h), isPath) \o Enc(SubSeq(x, h + 1, Len(x)), isPath)

(* Decoding is partial: every '%' must be followed by two hex digits ('%' is no hex digit, so escapes cannot       *)
(* overlap in a well-formed text).  A position is covered when it is one of the two digits of an escape; the       *)
(* m-th uncovered position gives the m-th output byte.  lower = some escape used a lower-case digit.              *)
(* (UriMC.tla checks these closed forms against a left-to-right scanner.)                                          *)
PercentAt(t) == {i \in 1..Len(t) : t[i] = 37}
WellEscaped(t) == \A i \in PercentAt(t) : IF i + 2 <= Len(t) THEN HexVal(t[i + 1]) >= 0 /\ HexVal(t[i + 2]) >= 0 ELSE FALSE
Covered(t, i) == IF i >= 2 /\ t[i - 1] = 37 THEN TRUE ELSE IF i >= 3 THEN t[i - 2] = 37 ELSE FALSE
DecBytes(t) ==
    LET pc == PercentAt(t)
        starts == {i \in 1..Len(t) : ~Covered(t, i)}
        rank == [i \in starts |-> i - 2 * Cardinality({j \in pc : j < i})]
    IN [m \in 1..(Len(t) - 2 * Cardinality(pc)) |->
          LET i == CHOOSE i \in starts : rank[i] = m
          IN IF t[i] = 37 THEN HexVal(t[i + 1]) * 16 + HexVal(t[i + 2]) ELSE t[i]]
Dec(t) == IF WellEscaped(t)
          THEN [ok |-> TRUE, bytes |-> DecBytes(t),
                lower |-> \E i \in PercentAt(t) : ~UpperHex(t[i + 1]) \/ ~UpperHex(t[i + 2])]
          ELSE [ok |-> FALSE, bytes |-> <<>>, lower |-> FALSE]

(* the encoded alphabet: unreserved characters, '/' for paths, and %XX with upper-case digits *)
Shape(e, isPath) ==
    /\ \A i \in PercentAt(e) : IF i + 2 <= Len(e) THEN UpperHex(e[i + 1]) /\ UpperHex(e[i + 2]) ELSE FALSE
    /\ \A i \in 1..Len(e) : (e[i] # 37 /\ ~Covered(e, i)) => Plain(e[i], isPath)

IsPrefix(p, s) == IF Len(p) <= Len(s) THEN SubSeq(s, 1, Len(p)) = p ELSE FALSE
Drop(s, n) == SubSeq(s, n + 1, Len(s))

(* aws_byte_buf_append_encoding_uri_path / _param on a dynamic buffer that already holds `pre`: always room.      *)
(* Stated as the property states it (alphabet, round trip, content in front untouched) and, in addition, exactly:  *)
(* uri.h documents "passthrough alnum + '-' '_' '~' '.'" and the SigV4 path form, i.e. escape nothing else.         *)
EncCall(isPath, x, pre, rc, out) ==
    /\ rc = 0
    /\ Chk(IsPrefix(pre, out))
    /\ LET e == Drop(out, Len(pre))
       IN Chk(/\ Shape(e, isPath)
              /\ Dec(e) = [ok |-> TRUE, bytes |-> x, lower |-> FALSE]
              /\ e = Enc(x, isPath))
    /\ enc' = [has |-> TRUE, x |-> x] /\ UNCHANGED uri

(* aws_byte_buf_append_decoding_uri(t).  fromLast: t is what the last encoder call appended, so the original      *)
(* bytes must come back.  A text with a '%' that is not followed by two hex digits has no decoding and must be      *)
(* refused (the error code and the buffer after a refusal are not documented); lower-case digits may be refused.    *)
DecCall(fromLast, t, pre, rc, out) ==
    /\ Chk(fromLast => enc.has)
    /\ LET d == Dec(t)
       IN Chk(IF ~d.ok THEN rc # 0
              ELSE IF d.lower /\ rc # 0 THEN TRUE
              ELSE /\ rc = 0 /\ out = pre \o d.bytes
                   /\ fromLast => d.bytes = enc.x)
    /\ UNCHANGED uvars
=============================================================================
