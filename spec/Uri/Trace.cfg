SPECIFICATION TSpec
CONSTANTS WBase = 32768
POSTCONDITION TraceAccepted
CHECK_DEADLOCK FALSE
