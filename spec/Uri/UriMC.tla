-------------------------------- MODULE UriMC --------------------------------
(* Bounded exhaustive exploration of Uri.tla.                                                        *)
(*  - components: a record c is put together one component at a time from small option sets          *)
(*    (absent / empty / one / two characters, plain and bracketed hosts, ports around 2^32, queries     *)
(*    with blank items, missing '=' and repeated '&'); then the call actions of Uri.tla are taken with   *)
(*    the report a correct implementation gives (Report), which shows that the relations are            *)
(*    satisfiable exactly by the expected views, and the invariants below are evaluated on every c.      *)
(*  - Injective (ASSUME): on the explored component set Text is one-to-one, i.e. the property           *)
(*    "parsing Text(c) yields c" is satisfiable at all: no two component records render to the same     *)
(*    text.                                                                                             *)
(*  - bytes: every byte string over ByteAlphabet up to MaxBytes, read as data (round trip, alphabet,     *)
(*    length bound, concatenation) and as text to decode.                                               *)
(* Gen.cfg: simulation; each finished c is printed as a script (components, items, text).               *)
EXTENDS Uri, TLC, Json

CONSTANTS SchemeOpts, UiOpts, HostOpts, PortOpts, PathOpts, QueryOpts, ByteAlphabet, MaxBytes, GenMode
VARIABLES c, items, stage, x
mcvars == <<uri, enc, c, items, stage, x>>

-----------------------------------------------------------------------------
(* option sets (byte values: h 104, u 117, w 119, a 97, k 107, v 118, p 112) *)
Sch(h, t) == [h |-> h, t |-> t]
SchemeFull == {Sch(FALSE, <<>>), Sch(TRUE, <<>>), Sch(TRUE, <<104>>), Sch(TRUE, <<104, 43>>)}
SchemeOne == {Sch(FALSE, <<>>)}
Ui(hu, usr, hw, pw) == [hu |-> hu, usr |-> usr, hw |-> hw, pw |-> pw]
UiFull == {Ui(FALSE, <<>>, FALSE, <<>>)}
          \cup {Ui(TRUE, u, FALSE, <<>>) : u \in {<<>>, <<117>>, <<117, 37>>}}
          \cup {Ui(TRUE, u, TRUE, p) : u \in {<<>>, <<117>>, <<117, 37>>}, p \in {<<>>, <<119>>, <<58>>, <<119, 58>>}}
UiOne == {Ui(FALSE, <<>>, FALSE, <<>>)}
Ho(v6, t) == [v6 |-> v6, t |-> t]
HostFull == {Ho(FALSE, t) : t \in {<<>>, <<97>>, <<97, 46>>, <<97, 97>>}}
            \cup {Ho(TRUE, t) : t \in {<<>>, <<58>>, <<58, 58>>, <<49>>, <<58, 49>>, <<49, 58>>}}
HostOne == {Ho(FALSE, <<97>>)}
Po(h, t) == [h |-> h, t |-> t]
PortFull == {Po(FALSE, <<>>), Po(TRUE, <<>>), Po(TRUE, <<48>>), Po(TRUE, <<56, 48>>), Po(TRUE, <<48, 56>>),
             Po(TRUE, <<52, 50, 57, 52, 57, 54, 55, 50, 57, 53>>),                  \* 4294967295
             Po(TRUE, <<52, 50, 57, 52, 57, 54, 55, 50, 57, 54>>),                  \* 4294967296
             Po(TRUE, <<49, 56, 52, 52, 54, 55, 52, 52, 48, 55, 51, 55, 48, 57, 53, 53, 49, 54, 49, 54>>)}   \* 2^64
PortOne == {Po(FALSE, <<>>)}
PathFull == {<<>>, <<47>>, <<47, 112>>, <<47, 47>>, <<47, 58>>, <<47, 64>>}
PathOne == {<<47>>}
It(eq, k, v) == [eq |-> eq, k |-> k, v |-> v]
BlankIt == It(FALSE, <<>>, <<>>)
Qo(h, its) == [h |-> h, its |-> its]
QueryFull == {Qo(FALSE, <<>>), Qo(TRUE, <<>>),
              Qo(TRUE, <<It(FALSE, <<107>>, <<>>)>>),                                   \* k
              Qo(TRUE, <<It(TRUE, <<107>>, <<118>>)>>),                                 \* k=v
              Qo(TRUE, <<BlankIt, It(TRUE, <<107>>, <<118>>)>>),                        \* &k=v
              Qo(TRUE, <<It(FALSE, <<107>>, <<>>), BlankIt>>),                          \* k&
              Qo(TRUE, <<It(TRUE, <<>>, <<118>>), It(TRUE, <<107>>, <<>>)>>),           \* =v&k=
              Qo(TRUE, <<It(TRUE, <<107>>, <<118>>), BlankIt, BlankIt, It(FALSE, <<107>>, <<>>)>>),   \* k=v&&&k
              Qo(TRUE, <<It(TRUE, <<107>>, <<58, 47>>)>>),                              \* k=:/
              Qo(TRUE, <<It(TRUE, <<107>>, <<63, 61>>)>>)}                              \* k=?=
ItemKinds == {BlankIt, It(FALSE, <<107>>, <<>>), It(FALSE, <<107, 107>>, <<>>)}
             \cup {It(TRUE, k, v) : k \in {<<>>, <<107>>}, v \in {<<>>, <<118>>, <<61>>}}
QueryItems == {Qo(FALSE, <<>>)} \cup {Qo(TRUE, s) : s \in UNION {[1..n -> ItemKinds] : n \in 0..3}}
(* a reduced set for quick generation and the injectivity check *)
SchemeSmall == {Sch(FALSE, <<>>), Sch(TRUE, <<>>), Sch(TRUE, <<104>>)}
UiSmall == {Ui(FALSE, <<>>, FALSE, <<>>), Ui(TRUE, <<>>, FALSE, <<>>), Ui(TRUE, <<117>>, FALSE, <<>>),
            Ui(TRUE, <<117>>, TRUE, <<>>), Ui(TRUE, <<>>, TRUE, <<119>>), Ui(TRUE, <<117>>, TRUE, <<119>>)}
HostSmall == {Ho(FALSE, <<>>), Ho(FALSE, <<97>>), Ho(TRUE, <<>>), Ho(TRUE, <<58>>), Ho(TRUE, <<58, 49>>)}
PortSmall == {Po(FALSE, <<>>), Po(TRUE, <<>>), Po(TRUE, <<56, 48>>),
              Po(TRUE, <<52, 50, 57, 52, 57, 54, 55, 50, 57, 53>>), Po(TRUE, <<52, 50, 57, 52, 57, 54, 55, 50, 57, 54>>)}
PathSmall == {<<>>, <<47>>, <<47, 112>>}
QuerySmall == {Qo(FALSE, <<>>), Qo(TRUE, <<>>), Qo(TRUE, <<It(TRUE, <<107>>, <<118>>)>>),
               Qo(TRUE, <<BlankIt, It(FALSE, <<107>>, <<>>)>>)}

AlphaBytes == {0, 32, 37, 47, 50, 70, 97, 126, 255}               \* NUL ' ' % / 2 F a ~ 0xFF

-----------------------------------------------------------------------------
Blank0 == [hs |-> FALSE, sch |-> <<>>, hu |-> FALSE, usr |-> <<>>, hw |-> FALSE, pw |-> <<>>, host |-> <<>>, v6 |-> FALSE,
           hp |-> FALSE, port |-> <<>>, path |-> <<>>, hq |-> FALSE, q |-> <<>>]
MCInit == UInit /\ c = Blank0 /\ items = <<>> /\ stage = 0 /\ x = <<>>

Keep == UNCHANGED <<uri, enc, x>>
SetScheme == /\ stage = 0 /\ x = <<>> /\ \E o \in SchemeOpts : c' = [c EXCEPT !.hs = o.h, !.sch = o.t]
             /\ stage' = 1 /\ UNCHANGED items /\ Keep
SetUser == /\ stage = 1 /\ \E o \in UiOpts : c' = [c EXCEPT !.hu = o.hu, !.usr = o.usr, !.hw = o.hw, !.pw = o.pw]
           /\ stage' = 2 /\ UNCHANGED items /\ Keep
SetHost == /\ stage = 2 /\ \E o \in HostOpts : c' = [c EXCEPT !.v6 = o.v6, !.host = o.t]
           /\ stage' = 3 /\ UNCHANGED items /\ Keep
SetPort == /\ stage = 3 /\ \E o \in PortOpts : c' = [c EXCEPT !.hp = o.h, !.port = o.t]
           /\ stage' = 4 /\ UNCHANGED items /\ Keep
SetPath == /\ stage = 4 /\ \E o \in PathOpts : c' = [c EXCEPT !.path = o]
           /\ stage' = 5 /\ UNCHANGED items /\ Keep
SetQuery == /\ stage = 5 /\ \E o \in QueryOpts : c' = [c EXCEPT !.hq = o.h, !.q = QueryText(o.its)] /\ items' = o.its
            /\ stage' = 6 /\ Keep

(* what a correct implementation reports *)
Rv(w) == [o |-> w.o, n |-> Len(w.b), b |-> w.b]
NullV == [o |-> -1, n |-> 0, b |-> <<>>]
Report(cc) ==
    LET e == Expected(cc)
    IN [tot |-> Len(Text(cc)), str |-> Text(cc), vsch |-> Rv(e.sch), vauth |-> Rv(e.auth), vui |-> Rv(e.ui), vusr |-> Rv(e.usr),
        vpw |-> IF cc.hw THEN Rv(e.pw) ELSE NullV, vhost |-> Rv(e.host), vpath |-> Rv(e.path),
        vq |-> IF cc.hq THEN Rv(e.q) ELSE NullV, vpq |-> Rv(e.pq), vport |-> e.port]
NullReport == [tot |-> 0, str |-> <<>>, vsch |-> NullV, vauth |-> NullV, vui |-> NullV, vusr |-> NullV, vpw |-> NullV,
               vhost |-> NullV, vpath |-> NullV, vq |-> NullV, vpq |-> NullV, vport |-> <<>>]
DoParse == /\ stage = 6 /\ Chk(WellFormed(c)) /\ ~GenMode
           /\ IF MustFail(c) THEN Parse(c, Text(c), 1, NullReport) ELSE Parse(c, Text(c), 0, Report(c))
           /\ stage' = 7 /\ UNCHANGED <<c, items, x>>
(* the same components through the builder, where the builder can express them *)
Opts(cc, asList) == [sch |-> cc.sch, host |-> cc.host, v6 |-> cc.v6, port |-> cc.port, path |-> cc.path,
                     qm |-> IF ~cc.hq THEN "N" ELSE IF asList THEN "L" ELSE "S",
                     qs |-> IF cc.hq /\ ~asList THEN cc.q ELSE <<>>,
                     params |-> IF cc.hq /\ asList THEN [i \in 1..Len(items) |-> [k |-> items[i].k, v |-> items[i].v]] ELSE <<>>]
Buildable(cc, asList) == /\ ~cc.hu /\ (cc.hs => cc.sch # <<>>) /\ (cc.hq => cc.q # <<>>) /\ (cc.hp => cc.port # <<>>)
                         /\ asList => (cc.hq /\ \A i \in 1..Len(items) : items[i].eq)
                         /\ BuildWellFormed(Opts(cc, asList))
DoBuild == /\ stage = 6 /\ ~GenMode
           /\ \E asList \in BOOLEAN : /\ Chk(Buildable(c, asList))
                                      /\ Build(Opts(c, asList), 0, Report(BuildComp(Opts(c, asList))))
           /\ stage' = 7 /\ UNCHANGED <<c, items, x>>
PairsReport == LET p == Pairs(items) IN [n \in 1..Len(p) |-> [k |-> Rv(p[n].k), v |-> Rv(p[n].v)]]
DoQuery == /\ stage = 7 /\ uri.has
           /\ Query(items, Len(c.q), PairsReport, FALSE, 0, PairsReport)      \* offsets relative to the query text here
           /\ stage' = 8 /\ UNCHANGED <<c, items, x>>

(* byte strings *)
Extend == /\ stage = 0 /\ c = Blank0 /\ ~enc.has /\ Len(x) < MaxBytes /\ \E b \in ByteAlphabet : x' = Append(x, b)
          /\ UNCHANGED <<uri, enc, c, items, stage>>
Pre3 == <<80, 81, 82>>
DoEnc == /\ stage = 0 /\ c = Blank0 /\ ~enc.has /\ ~GenMode /\ x # <<>>
         /\ \E isPath \in BOOLEAN : EncCall(isPath, x, Pre3, 0, Pre3 \o Enc(x, isPath))
         /\ UNCHANGED <<c, items, stage, x>>
DoDec == /\ stage = 0 /\ enc.has
         /\ \E isPath \in BOOLEAN : DecCall(TRUE, Enc(enc.x, isPath), Pre3, 0, Pre3 \o enc.x)
         /\ stage' = 9 /\ UNCHANGED <<c, items, x>>
DoDecText == /\ stage = 0 /\ c = Blank0 /\ ~enc.has /\ ~GenMode /\ x # <<>>
             /\ LET d == Dec(x) IN DecCall(FALSE, x, Pre3, IF d.ok THEN 0 ELSE 1, IF d.ok THEN Pre3 \o d.bytes ELSE Pre3)
             /\ stage' = 9 /\ UNCHANGED <<c, items, x>>

MCNext == SetScheme \/ SetUser \/ SetHost \/ SetPort \/ SetPath \/ SetQuery \/ DoParse \/ DoBuild \/ DoQuery
          \/ Extend \/ DoEnc \/ DoDec \/ DoDecText
MCSpec == MCInit /\ [][MCNext]_mcvars

-----------------------------------------------------------------------------
(* invariants on the components *)
SliceOf(t, w) == IF w.o = -1 THEN w.b = <<>>
                 ELSE w.o >= 0 /\ w.o + Len(w.b) <= Len(t) /\ SubSeq(t, w.o + 1, w.o + Len(w.b)) = w.b
InvSlices == WellFormed(c) =>
    LET e == Expected(c)
        t == Text(c)
    IN /\ SliceOf(t, e.sch) /\ SliceOf(t, e.auth) /\ SliceOf(t, e.ui) /\ SliceOf(t, e.usr) /\ (c.hw => SliceOf(t, e.pw))
       /\ SliceOf(t, e.host) /\ SliceOf(t, e.path) /\ (c.hq => SliceOf(t, e.q)) /\ SliceOf(t, e.pq)
       /\ e.pq.o + Len(e.pq.b) = Len(t)                                   \* path and query run to the end
       /\ e.auth.o + Len(e.auth.b) = e.path.o                             \* the path starts where the authority ends
Has(s, b) == \E i \in 1..Len(s) : s[i] = b
(* the separators are where the rendering put them and nowhere earlier *)
InvDelims == WellFormed(c) =>
    LET t == Text(c)
        au == AuthText(c)
    IN /\ ~Has(au, 47) /\ ~Has(au, 63) /\ ~Has(c.path, 63)
       /\ c.hs => FirstIdx(t, 58) = Len(c.sch) + 1
       /\ IF c.hu THEN FirstIdx(au, 64) = Len(UiText(c)) + 1 ELSE ~Has(au, 64)
       /\ c.hu => (IF c.hw THEN FirstIdx(UiText(c), 58) = Len(c.usr) + 1 ELSE ~Has(UiText(c), 58))
       /\ IF c.v6 THEN FirstIdx(HostText(c), 93) = Len(c.host) + 2 ELSE ~Has(c.host, 58) /\ ~Has(c.host, 91)
       /\ c.hq => FirstIdx(PQText(c), 63) = Len(c.path) + 1
(* the port is the number its digits denote, in range exactly when at most 2^32-1 *)
InvPort == (c.hp /\ Len(c.port) <= 9) =>
    LET n[i \in 0..Len(c.port)] == IF i = 0 THEN 0 ELSE n[i - 1] * 10 + (c.port[i] - 48)
    IN PortW(c) = WFromNat(n[Len(c.port)]) /\ PortFits(c)

(* the item reading of a query against the header's wording: split at '&', skip blanks, split at the first '=' *)
AmpPos(t) == SortedSeq({i \in 1..Len(t) : t[i] = 38})
SplitAmp(t) == LET pos == <<0>> \o AmpPos(t) \o <<Len(t) + 1>>
               IN [j \in 1..(Len(pos) - 1) |-> SubSeq(t, pos[j] + 1, pos[j + 1] - 1)]
NonEmpty(s) == s # <<>>
KeyOf(seg) == LET i == FirstIdx(seg, 61) IN IF i = 0 THEN seg ELSE SubSeq(seg, 1, i - 1)
ValOf(seg) == LET i == FirstIdx(seg, 61) IN IF i = 0 THEN <<>> ELSE SubSeq(seg, i + 1, Len(seg))
InvQuery ==
    LET t == QueryText(items)
        segs == SelectSeq(SplitAmp(t), NonEmpty)
        p == Pairs(items)
    IN /\ t = c.q
       /\ Len(p) = Len(segs)
       /\ \A n \in 1..Len(p) : /\ p[n].k.b = KeyOf(segs[n]) /\ p[n].v.b = ValOf(segs[n])
                               /\ SliceOf(t, p[n].k) /\ SliceOf(t, p[n].v)
       /\ \A n \in 1..(Len(p) - 1) : p[n].k.o < p[n + 1].k.o                 \* in order, each once

(* invariants on byte strings: x as data *)
InvRoundTrip == \A isPath \in BOOLEAN : Dec(Enc(x, isPath)) = [ok |-> TRUE, bytes |-> x, lower |-> FALSE]
InvShape == \A isPath \in BOOLEAN : Shape(Enc(x, isPath), isPath) /\ Len(Enc(x, isPath)) <= 3 * Len(x)
InvConcat == \A isPath \in BOOLEAN : \A k \in 0..Len(x) :
                Enc(x, isPath) = Enc(SubSeq(x, 1, k), isPath) \o Enc(SubSeq(x, k + 1, Len(x)), isPath)
InvParamStricter == \A i \in 1..Len(Enc(x, FALSE)) : Enc(x, FALSE)[i] # 47
(* the closed forms of Uri.tla against a left-to-right scanner *)
RECURSIVE ScanDec(_, _, _, _)
ScanDec(t, i, acc, lower) ==
    IF i > Len(t) THEN [ok |-> TRUE, bytes |-> acc, lower |-> lower]
    ELSE IF t[i] # 37 THEN ScanDec(t, i + 1, Append(acc, t[i]), lower)
    ELSE IF i + 2 > Len(t) THEN [ok |-> FALSE, bytes |-> <<>>, lower |-> FALSE]
    ELSE IF HexVal(t[i + 1]) < 0 \/ HexVal(t[i + 2]) < 0 THEN [ok |-> FALSE, bytes |-> <<>>, lower |-> FALSE]
    ELSE ScanDec(t, i + 3, Append(acc, HexVal(t[i + 1]) * 16 + HexVal(t[i + 2])), lower \/ ~UpperHex(t[i + 1]) \/ ~UpperHex(t[i + 2]))
RECURSIVE ScanShape(_, _, _)
ScanShape(e, i, isPath) ==
    IF i > Len(e) THEN TRUE
    ELSE IF e[i] = 37 THEN (IF i + 2 <= Len(e) THEN UpperHex(e[i + 1]) /\ UpperHex(e[i + 2]) /\ ScanShape(e, i + 3, isPath) ELSE FALSE)
    ELSE Plain(e[i], isPath) /\ ScanShape(e, i + 1, isPath)
ScanEnc(s, isPath) == LET acc[i \in 0..Len(s)] == IF i = 0 THEN <<>> ELSE acc[i - 1] \o EncByte(s[i], isPath) IN acc[Len(s)]
InvScanner == /\ Dec(x) = ScanDec(x, 1, <<>>, FALSE)
              /\ \A isPath \in BOOLEAN : Shape(x, isPath) = ScanShape(x, 1, isPath) /\ Enc(x, isPath) = ScanEnc(x, isPath)
                                          /\ Dec(Enc(x, isPath)) = ScanDec(ScanEnc(x, isPath), 1, <<>>, FALSE)
(* x as text to decode *)
InvDecText ==
    LET d == Dec(x)
        npc == Cardinality({i \in 1..Len(x) : x[i] = 37})
    IN /\ (npc = 0 => (d.ok /\ d.bytes = x))
       /\ (d.ok => Len(d.bytes) = Len(x) - 2 * npc)
       /\ ((\E i \in 1..Len(x) : x[i] = 37 /\ i + 2 > Len(x)) => ~d.ok)
       /\ (~d.ok => \E i \in 1..Len(x) : x[i] = 37 /\ (i + 2 > Len(x) \/ HexVal(x[IF i + 1 <= Len(x) THEN i + 1 ELSE i]) < 0
                                                       \/ HexVal(x[IF i + 2 <= Len(x) THEN i + 2 ELSE i]) < 0))
       /\ (Shape(x, TRUE) => d.ok /\ ~d.lower)

(* Text is one-to-one on the explored components (evaluated once) *)
Domain == {[hs |-> s.h, sch |-> s.t, hu |-> u.hu, usr |-> u.usr, hw |-> u.hw, pw |-> u.pw, host |-> h.t, v6 |-> h.v6,
            hp |-> p.h, port |-> p.t, path |-> pa, hq |-> qq.h, q |-> QueryText(qq.its)] :
           s \in SchemeSmall, u \in UiSmall, h \in HostSmall, p \in PortSmall, pa \in PathSmall, qq \in QuerySmall}
Injective == LET D == {d \in Domain : WellFormed(d)} IN Cardinality({Text(d) : d \in D}) = Cardinality(D)
ASSUME GenMode \/ Injective

Emit == (GenMode /\ stage = 6 /\ WellFormed(c)) =>
           PrintT(<<"SCRIPT", ToJson([c |-> c, items |-> items, text |-> Text(c)])>>)
=============================================================================
