SPECIFICATION Spec
CONSTANTS WBase = 32768
  Alphabet <- AlphaText4
  MaxLen = 8
  GenMode = FALSE
INVARIANTS B64Canonical B64RejectsShapes
CHECK_DEADLOCK FALSE
