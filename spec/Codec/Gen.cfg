SPECIFICATION Spec
CONSTANTS WBase = 32768
  Alphabet <- AlphaGen
  MaxLen = 9
  GenMode = TRUE
INVARIANT Emit
CHECK_DEADLOCK FALSE
