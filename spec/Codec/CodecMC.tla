------------------------------- MODULE CodecMC -------------------------------
(* Bounded exhaustive check of the codec definitions: the state is a byte string x over a small      *)
(* alphabet, grown one byte at a time up to MaxLen, and each configuration reads x as                *)
(*   MC_bytes.cfg : data     -> encode/decode round trips, canonical shape, length predictions        *)
(*   MC_text.cfg  : text     -> every accepted text is the canonical encoding of what it decodes to   *)
(*   MC_utf8.cfg  : UTF-8    -> the incremental machine equals the table of well-formed sequences and *)
(*                              its verdict / code points are the same for every split into <= 3      *)
(*                              chunks (chunking invariance)                                          *)
(* Gen.cfg: simulation that prints the visited strings (TLC-generated UTF-8 texts for the harness).   *)
EXTENDS Codec, TLC, Json

CONSTANTS Alphabet, MaxLen, GenMode
VARIABLES x

AlphaBytes == {0, 1, 61, 65, 250, 255}
AlphaText == {0, 33, 47, 61, 65, 66, 81, 103}                      \* NUL ! / = A B Q g
AlphaText4 == {61, 65, 66, 81}                                        \* = A B Q : two quanta, every padding position
AlphaHex == {48, 57, 97, 102, 65, 70, 103, 71}                     \* 0 9 a f A F g G
AlphaUtf8 == {65, 128, 143, 144, 159, 160, 191, 192, 194, 224, 237, 240, 244, 245}
AlphaGen == {0, 65, 127, 128, 143, 144, 159, 160, 191, 192, 193, 194, 223, 224, 225, 236, 237, 238, 239, 240, 241,
             243, 244, 245, 247, 248, 254, 255, 187, 239, 191}

Init == x = <<>>
Extend == Len(x) < MaxLen /\ \E b \in Alphabet : x' = Append(x, b)
Next == Extend
Spec == Init /\ [][Next]_x

-----------------------------------------------------------------------------
(* x as data *)
B64RoundTrip == B64Dec(B64Enc(x)) = [ok |-> TRUE, bytes |-> x]
B64Shape == LET e == B64Enc(x) IN
            /\ Len(e) = B64EncLen(Len(x)) /\ Len(e) % 4 = 0
            /\ \A i \in 1..Len(e) : IsB64(e[i]) \/ (e[i] = PAD /\ i > Len(e) - 2)
            /\ B64DecLen(e) = Len(x)
HexRoundTrip == LET e == HexEnc(x) IN
                /\ Len(e) = 2 * Len(x) /\ HexStrict(e) /\ HexDecBytes(e) = x
(* appending data only appends text, except for the last (padded) quantum: prefix stability *)
B64Prefix == \A k \in 0..(Len(x) \div 3) : SubSeq(B64Enc(x), 1, 4 * k) = B64Enc(SubSeq(x, 1, 3 * k))

(* x as text *)
B64Canonical == B64WellFormed(x) => (B64Enc(B64DecBytes(x)) = x /\ Len(B64DecBytes(x)) = B64DecLen(x))
B64RejectsShapes == (Len(x) % 4 # 0 \/ \E i \in 1..Len(x) : (~IsB64(x[i]) /\ x[i] # PAD)
                     \/ \E j \in 1..(Len(x) - 2) : x[j] = PAD) => ~B64WellFormed(x)
Lower(c) == IF c >= 65 /\ c <= 70 THEN c + 32 ELSE c
HexCanonical == HexLoose(x) => LET u == IF Len(x) % 2 = 1 THEN <<48>> \o x ELSE x
                               IN HexEnc(HexDecBytes(x)) = [i \in 1..Len(u) |-> Lower(u[i])]

(* x as UTF-8 *)
Utf8Machine == LET w == Utf8Whole(x)
                   tb == Utf8Table(x, 1, <<>>)
               IN ~w.beyond => (w.ok = tb.ok /\ w.cps = tb.cps)
Utf8Chunking ==
    LET w == Utf8Whole(x)
        n == Len(x)
    IN \A i \in 0..n : \A j \in i..n :
          Utf8Chunked(Utf8Init, <<SubSeq(x, 1, i), SubSeq(x, i + 1, j), SubSeq(x, j + 1, n)>>, 1, <<>>)
             = [ok |-> w.ok, cps |-> w.cps]
(* nothing above U+10FFFF or in the surrogate range is ever reported for a text the table accepts *)
Utf8Scalars == LET tb == Utf8Table(x, 1, <<>>) IN
               \A i \in 1..Len(tb.cps) : tb.cps[i] <= 1114111 /\ ~(tb.cps[i] >= 55296 /\ tb.cps[i] <= 57343)

(* length predictions on wide naturals agree with the small-number definitions (evaluated once) *)
ASSUME \A n \in (0..130) \cup (32760..32775) \cup {1073741820, 1073741823} :
          /\ WB64EncLen(WFromNat(n)) = WFromNat(B64EncLen(n))
          /\ WHexEncLen(WFromNat(n)) = WFromNat(2 * n)
          /\ WHexDecLen(WFromNat(n)) = WFromNat((n + 1) \div 2)

Emit == (GenMode /\ Len(x) >= 1) => PrintT(<<"SCRIPT", ToJson([text |-> x])>>)
=============================================================================
