SPECIFICATION Spec
CONSTANTS WBase = 32768
  Alphabet <- AlphaUtf8
  MaxLen = 5
  GenMode = FALSE
INVARIANTS Utf8Machine Utf8Chunking Utf8Scalars
CHECK_DEADLOCK FALSE
