SPECIFICATION VSpec
CONSTANTS WBase = 32768
POSTCONDITION TraceAccepted
CHECK_DEADLOCK FALSE
