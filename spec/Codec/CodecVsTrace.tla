---------------------------- MODULE CodecVsTrace ----------------------------
(* Base64 / hex calls made by several threads at once, each on buffers of its own (harness/codec_scenario.c under the *)
(* controlled scheduler).  The codecs are stateless, so every event is judged on its own by the actions of            *)
(* CodecTrace.tla - the result of a call must not depend on what other threads are doing.                             *)
EXTENDS CodecTrace
VReset == Ev.e = "Reset" /\ UNCHANGED <<path, u>>
VEnd == Ev.e = "End" /\ Ev.live = 0 /\ Ev.unjoined = 0 /\ UNCHANGED <<path, u>>
VNext == l <= TraceLen /\ l' = l + 1 /\ (VReset \/ TB64Enc \/ TB64Dec \/ THexEnc \/ THexDec \/ VEnd)
VSpec == TInit /\ [][VNext]_<<l, path, u>>
=============================================================================
