SPECIFICATION Spec
CONSTANTS WBase = 32768
  Alphabet <- AlphaBytes
  MaxLen = 6
  GenMode = FALSE
INVARIANTS B64RoundTrip B64Shape HexRoundTrip B64Prefix
CHECK_DEADLOCK FALSE
