------------------------------- MODULE CodecTrace -------------------------------
(* Trace validation for C05.  Every call of the real codec functions is one event                   *)
(* (function, CPU path of the process, inputs, outputs); the outputs must be the ones Codec.tla      *)
(* defines.  The same vectors are recorded in two processes (AWS_COMMON_AVX2=1 / 0) and each trace   *)
(* is validated against this one specification, so equal verdicts and bytes on both paths follow.    *)
(*                                                                                                  *)
(* Output buffers (exact-size heap blocks: capacity cap, pre-existing content pre, the rest filled   *)
(* with a canary) are reported as len / out = buffer[0..len) / wrote = 1 + highest changed index.    *)
(* The headers do not say whether a function appends at output->len or stores from offset 0 (the     *)
(* base64 encoder appends, the three others store from 0), so both forms are accepted; a call may    *)
(* only fail for lack of room when the appending form would not fit.  Error codes are not            *)
(* documented and not constrained.                                                                  *)
EXTENDS Codec, TraceCommon

VARIABLES l, path, u
Ev == TraceLog[l]
Chk(b) == b = TRUE      \* evaluate as a plain expression (TLC would split an action-level disjunction into branches)

(* deviations of known findings (DESIGN 3.3) are enabled from the environment by checks/c05.py, which reads
   known_findings.txt (ids F4, F7); with nothing enabled this is the strict specification *)
DevOn(name) == ("VERIF_DEV_" \o name) \in DOMAIN IOEnv

UIdle == [has |-> FALSE, text |-> <<>>, ok |-> FALSE, cps |-> <<>>, beyond |-> FALSE,
          alive |-> FALSE, fin |-> FALSE, st |-> Utf8Init, fed |-> <<>>, got |-> <<>>, cb |-> TRUE]
IsPrefix(p, s) == IF Len(p) <= Len(s) THEN SubSeq(s, 1, Len(p)) = p ELSE FALSE

-----------------------------------------------------------------------------
(* a refused call must not report more bytes than it had or wrote *)
Refused(e) == IF e.rc = 0 THEN FALSE ELSE IF e.len = Len(e.pre) THEN TRUE ELSE e.len <= e.wrote
(* a call that has `bytes` to deliver *)
Stored(e, bytes) ==
    LET n == Len(bytes)
        p == Len(e.pre)
    IN IF e.rc = 0
       THEN IF e.len = p + n /\ e.out = e.pre \o bytes THEN TRUE          \* appended
            ELSE e.len = n /\ e.out = bytes                                \* stored from offset 0
       ELSE e.cap < p + n /\ Refused(e)

TB64Enc == Ev.e = "B64Enc" /\ Chk(Stored(Ev, B64Enc(Ev.inp))) /\ UNCHANGED <<path, u>>
(* the same call on a buffer that already holds more than 4 GiB: the event describes a window around the append       *)
(* position (codec_adapter.c B64ENCAT); nothing outside the window - the first page of the buffer - may change          *)
TB64EncAt == Ev.e = "B64EncAt" /\ Chk(Stored(Ev, B64Enc(Ev.inp)) /\ Ev.low = 1 /\ Ev.len >= 0) /\ UNCHANGED <<path, u>>
TB64Dec == /\ Ev.e = "B64Dec"
           /\ Chk(IF B64WellFormed(Ev.inp) THEN Stored(Ev, B64DecBytes(Ev.inp)) ELSE Refused(Ev))
           /\ UNCHANGED <<path, u>>
TB64DecLen == /\ Ev.e = "B64DecLen"        \* exact for every text the decoder accepts; malformed text is left open
              /\ Chk(B64WellFormed(Ev.inp) => (Ev.rc = 0 /\ Ev.r = B64DecLen(Ev.inp)))
              /\ UNCHANGED <<path, u>>
THexEnc == Ev.e = "HexEnc" /\ Chk(Stored(Ev, HexEnc(Ev.inp))) /\ UNCHANGED <<path, u>>
(* aws_hex_encode_append_dynamic: always room *)
THexApp == Ev.e = "HexApp" /\ Chk(Ev.rc = 0 /\ Ev.len = Len(Ev.pre) + 2 * Len(Ev.inp) /\ Ev.out = Ev.pre \o HexEnc(Ev.inp))
           /\ UNCHANGED <<path, u>>
THexDec == /\ Ev.e = "HexDec"
           /\ Chk(IF HexStrict(Ev.inp) THEN Stored(Ev, HexDecBytes(Ev.inp))
                  ELSE IF HexLoose(Ev.inp) THEN (IF Ev.rc = 0 THEN Stored(Ev, HexDecBytes(Ev.inp)) ELSE Refused(Ev))
                  ELSE Refused(Ev))
           /\ UNCHANGED <<path, u>>

(* length predictions for plain sizes, also near SIZE_MAX (wide naturals): a reported length is the  *)
(* exact one; an exact length that does not fit must be refused; sizes a real object can have        *)
(* (n <= PTRDIFF_MAX) must be answered                                                              *)
WSizeMax == WMaxBits(64)
WPtrdiffMax == WMaxBits(63)
TLen == /\ Ev.e = "Len"
        /\ LET exact == CASE Ev.fn = "b64enc" -> WB64EncLen(Ev.n)
                          [] Ev.fn = "hexenc" -> WHexEncLen(Ev.n)
                          [] Ev.fn = "hexdec" -> WHexDecLen(Ev.n)
           IN Chk(/\ Ev.rc = 0 => WEq(Ev.r, exact)
                  /\ ~WLe(exact, WSizeMax) => Ev.rc # 0
                  /\ (WLe(Ev.n, WPtrdiffMax) /\ WLe(exact, WSizeMax)) => Ev.rc = 0)
        /\ UNCHANGED <<path, u>>

-----------------------------------------------------------------------------
(* known findings: the portable decoder accepting malformed final quanta (F4) / NUL as a digit.     *)
(* A deviation explains an accepted B64Dec event only on the portable path, only if the strict       *)
(* specification refuses the text, and only if the text is well formed once exactly the enabled      *)
(* relaxations are applied; the relaxations that were needed are printed.                           *)
LooseChar(c, R) == IF IsB64(c) THEN TRUE ELSE ("NUL" \in R /\ c = 0)
LooseVal(c) == IF c = 0 THEN 0 ELSE B64Val[c]
LooseWF(t, R) ==
    LET n == Len(t)
        p == B64Pad(t)
    IN IF n % 4 # 0 \/ n = 0 THEN FALSE
       ELSE IF "F4" \in R
            THEN /\ \A i \in 1..(n - 2) : LooseChar(t[i], R)
                 /\ \A i \in (n - 1)..n : t[i] = PAD \/ LooseChar(t[i], R)
            ELSE /\ \A i \in 1..(n - p) : LooseChar(t[i], R)
                 /\ p = 2 => LooseVal(t[n - 2]) % 16 = 0
                 /\ p = 1 => LooseVal(t[n - 1]) % 4 = 0
NeededDevs(t) == IF LooseWF(t, {"F4"}) THEN {"F4"}
                 ELSE IF LooseWF(t, {"NUL"}) THEN {"NUL"}
                 ELSE IF LooseWF(t, {"F4", "NUL"}) THEN {"F4", "NUL"} ELSE {}
Dev_B64DecAccepts ==
    /\ Ev.e = "B64Dec" /\ Ev.rc = 0 /\ path = "portable"
    /\ Chk(~B64WellFormed(Ev.inp))
    /\ LET need == NeededDevs(Ev.inp)
       IN /\ Chk(need # {} /\ \A d \in need : DevOn(d))
          /\ PrintT(<<"FIRED", need, Ev.inp, Ev.len, Ev.wrote>>)
    /\ UNCHANGED <<path, u>>

-----------------------------------------------------------------------------
(* UTF-8.  One execution = one text: first decoded in one piece (with and without a callback), then   *)
(* fed in chunks to an incremental decoder.  Texts that finish a code point above U+10FFFF (`beyond`) *)
(* are only required to behave the same in every chunking as they did in one piece.                   *)
TU8Whole ==
    /\ Ev.e = "U8Whole"
    /\ LET w == Utf8Whole(Ev.inp)
       IN /\ Chk(~w.beyond => ((Ev.rc = 0) = w.ok /\ Ev.cps = w.cps))
          /\ Chk((Ev.rc0 = 0) = (Ev.rc = 0))                              \* same verdict without a callback
          /\ u' = [UIdle EXCEPT !.has = TRUE, !.text = Ev.inp, !.ok = (Ev.rc = 0), !.cps = Ev.cps, !.beyond = w.beyond]
    /\ UNCHANGED path
(* new decoder / explicit reset / nothing at all after a finalize (which is documented to reset) *)
TU8Begin ==
    /\ Ev.e = "U8Begin" /\ u.has
    /\ Ev.how = "keep" => u.fin
    /\ Ev.how # "new" => (Ev.cb = 1) = u.cb                               \* the callback is fixed at creation
    /\ u' = [u EXCEPT !.alive = TRUE, !.fin = FALSE, !.st = Utf8Init, !.fed = <<>>, !.got = <<>>, !.cb = (Ev.cb = 1)]
    /\ UNCHANGED path
TU8Update ==
    /\ Ev.e = "U8Update" /\ u.alive
    /\ LET a == Utf8Update(u.st, Ev.inp)
           fed == u.fed \o Ev.inp
           got == u.got \o Ev.cps
       IN /\ Chk(IsPrefix(fed, u.text))                                   \* driver obligation
          /\ Chk(IF ~u.cb THEN Ev.cps = <<>> /\ (IF ~u.beyond THEN (Ev.rc = 0) = a.ok ELSE (Ev.rc # 0 => ~u.ok))
                 ELSE IF ~u.beyond THEN (Ev.rc = 0) = a.ok /\ Ev.cps = a.cps
                 ELSE IsPrefix(got, u.cps) /\ (Ev.rc # 0 => (~u.ok /\ got = u.cps)))
          /\ u' = [u EXCEPT !.alive = (Ev.rc = 0), !.st = a.st, !.fed = fed, !.got = got]
    /\ UNCHANGED path
TU8Final ==
    /\ Ev.e = "U8Final" /\ u.alive
    /\ Chk(IF ~u.beyond /\ u.fed = u.text THEN (Ev.rc = 0) = (u.st.rem = 0) /\ (Ev.rc = 0) = u.ok /\ (u.cb => u.got = u.cps)
           ELSE IF u.fed = u.text THEN (Ev.rc = 0) = u.ok /\ (u.cb => u.got = u.cps)
           ELSE (Ev.rc = 0) = (u.st.rem = 0))                             \* finalize in the middle of a text
    /\ Chk(Ev.rc # 0 => Ev.err = "AWS_ERROR_INVALID_UTF8")                \* documented in encoding.h
    /\ u' = [u EXCEPT !.alive = FALSE, !.fin = TRUE]
    /\ UNCHANGED path

TReset == /\ Ev.e = "Reset"
          /\ path' = Ev.path /\ u' = UIdle
TEnd == Ev.e = "End" /\ Ev.live = 0 /\ UNCHANGED <<path, u>>

TNext == /\ l <= TraceLen /\ l' = l + 1
         /\ \/ TReset \/ TB64Enc \/ TB64EncAt \/ TB64Dec \/ TB64DecLen \/ THexEnc \/ THexApp \/ THexDec \/ TLen
            \/ Dev_B64DecAccepts \/ TU8Whole \/ TU8Begin \/ TU8Update \/ TU8Final \/ TEnd
TInit == l = 1 /\ path = "auto" /\ u = UIdle
TSpec == TInit /\ [][TNext]_<<l, path, u>>
=============================================================================
