SPECIFICATION Spec
CONSTANTS WBase = 32768
  Alphabet <- AlphaText
  MaxLen = 5
  GenMode = FALSE
INVARIANTS B64Canonical B64RejectsShapes
CHECK_DEADLOCK FALSE
