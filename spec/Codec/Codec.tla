-------------------------------- MODULE Codec --------------------------------
(* C05: base64 (RFC 4648 section 4, canonical per 3.5), base16 and UTF-8 (RFC 3629) as pure        *)
(* functions on byte sequences (sequences of 0..255).  The same operators are model-checked on a    *)
(* small alphabet (CodecMC.tla: round trip, canonical form, length predictions, chunking            *)
(* invariance, UTF-8 machine = well-formed byte sequence table) and are the oracle of trace          *)
(* validation (CodecTrace.tla): every call of the real library is one event whose reported results   *)
(* must equal these definitions, on both CPU code paths.                                            *)
EXTENDS Wide, Integers

PAD == 61                                                                 \* '='

-----------------------------------------------------------------------------
(* base64 alphabet: A-Z a-z 0-9 + /                                                                *)
B64Char(v) == IF v < 26 THEN 65 + v
              ELSE IF v < 52 THEN 97 + (v - 26)
              ELSE IF v < 62 THEN 48 + (v - 52)
              ELSE IF v = 62 THEN 43 ELSE 47
B64Val == [c \in 0..255 |-> IF \E v \in 0..63 : B64Char(v) = c THEN CHOOSE v \in 0..63 : B64Char(v) = c ELSE -1]
IsB64(c) == B64Val[c] >= 0

(* encoding: 3 bytes -> 4 characters, the last group padded with '=' *)
B64Enc(x) ==
    LET n == Len(x)
        At(i) == IF i <= n THEN x[i] ELSE 0
    IN [k \in 1..(4 * ((n + 2) \div 3)) |->
          LET q == (k - 1) \div 4
              p == (k - 1) % 4
              b0 == At(3 * q + 1)
              b1 == At(3 * q + 2)
              b2 == At(3 * q + 3)
          IN CASE p = 0 -> B64Char(b0 \div 4)
               [] p = 1 -> B64Char((b0 % 4) * 16 + b1 \div 16)
               [] p = 2 -> IF 3 * q + 2 <= n THEN B64Char((b1 % 16) * 4 + b2 \div 64) ELSE PAD
               [] p = 3 -> IF 3 * q + 3 <= n THEN B64Char(b2 % 64) ELSE PAD]
B64EncLen(n) == 4 * ((n + 2) \div 3)

(* number of padding characters, looking at the last two positions only *)
B64Pad(t) == LET n == Len(t)
             IN IF n >= 1 /\ t[n] = PAD THEN (IF n >= 2 /\ t[n - 1] = PAD THEN 2 ELSE 1) ELSE 0

(* well-formed text: whole quanta, alphabet characters only, '=' only as the last one or two        *)
(* characters, and the bits of the last character that encode nothing are zero                      *)
B64WellFormed(t) ==
    LET n == Len(t)
        p == B64Pad(t)
    IN IF n % 4 # 0 THEN FALSE
       ELSE IF \E i \in 1..(n - p) : ~IsB64(t[i]) THEN FALSE
       ELSE IF p = 2 THEN B64Val[t[n - 2]] % 16 = 0
       ELSE IF p = 1 THEN B64Val[t[n - 1]] % 4 = 0
       ELSE TRUE

B64DecLen(t) == 3 * (Len(t) \div 4) - B64Pad(t)
B64DecBytes(t) ==
    LET V(i) == IF t[i] = PAD THEN 0 ELSE B64Val[t[i]]
    IN [k \in 1..B64DecLen(t) |->
          LET q == (k - 1) \div 3
              r == (k - 1) % 3
          IN CASE r = 0 -> V(4 * q + 1) * 4 + V(4 * q + 2) \div 16
               [] r = 1 -> (V(4 * q + 2) % 16) * 16 + V(4 * q + 3) \div 4
               [] r = 2 -> (V(4 * q + 3) % 4) * 64 + V(4 * q + 4)]
B64Dec(t) == IF B64WellFormed(t) THEN [ok |-> TRUE, bytes |-> B64DecBytes(t)] ELSE [ok |-> FALSE, bytes |-> <<>>]

-----------------------------------------------------------------------------
(* base16: lower-case digits on output; on input an odd number of digits means a leading zero       *)
(* nibble (encoding.h / encoding.c: "pretend there's an extra '0' at start").  Upper-case digits on  *)
(* input are left open by the property: HexLoose accepts them, HexStrict does not.                  *)
HexChar(v) == IF v < 10 THEN 48 + v ELSE 87 + v
HexVal(c) == IF c >= 48 /\ c <= 57 THEN c - 48
             ELSE IF c >= 97 /\ c <= 102 THEN c - 87
             ELSE IF c >= 65 /\ c <= 70 THEN c - 55 ELSE -1
HexEnc(x) == [k \in 1..(2 * Len(x)) |-> IF k % 2 = 1 THEN HexChar(x[(k + 1) \div 2] \div 16) ELSE HexChar(x[k \div 2] % 16)]
HexStrict(t) == \A i \in 1..Len(t) : HexVal(t[i]) >= 0 /\ ~(t[i] >= 65 /\ t[i] <= 70)
HexLoose(t) == \A i \in 1..Len(t) : HexVal(t[i]) >= 0
HexDecBytes(t) ==
    LET u == IF Len(t) % 2 = 1 THEN <<48>> \o t ELSE t
    IN [k \in 1..(Len(u) \div 2) |-> HexVal(u[2 * k - 1]) * 16 + HexVal(u[2 * k])]

(* length predictions on unbounded naturals (Wide): exact value; the caller compares with SIZE_MAX *)
WB64EncLen(n) == WMulLimb(WDivSmall(WAdd(n, <<2>>), 3).q, 4)
WHexEncLen(n) == WMulLimb(n, 2)
WHexDecLen(n) == WDivSmall(WAdd(n, <<1>>), 2).q

-----------------------------------------------------------------------------
(* UTF-8 as an incremental machine: the state carried between bytes is the partial code point, the  *)
(* smallest value the finished code point may have (anything below is an over-long form) and the    *)
(* number of continuation bytes still expected.                                                     *)
Utf8Init == [cp |-> 0, min |-> 0, rem |-> 0]

(* one byte: [st, ok, emit]; emit = a code point (st.cp) is complete *)
Utf8Step(s, b) ==
    IF s.rem = 0
    THEN IF b < 128 THEN [st |-> [cp |-> b, min |-> 0, rem |-> 0], ok |-> TRUE, emit |-> TRUE]
         ELSE IF b >= 192 /\ b <= 223 THEN [st |-> [cp |-> b - 192, min |-> 128, rem |-> 1], ok |-> TRUE, emit |-> FALSE]
         ELSE IF b >= 224 /\ b <= 239 THEN [st |-> [cp |-> b - 224, min |-> 2048, rem |-> 2], ok |-> TRUE, emit |-> FALSE]
         ELSE IF b >= 240 /\ b <= 247 THEN [st |-> [cp |-> b - 240, min |-> 65536, rem |-> 3], ok |-> TRUE, emit |-> FALSE]
         ELSE [st |-> s, ok |-> FALSE, emit |-> FALSE]
    ELSE IF b < 128 \/ b > 191 THEN [st |-> s, ok |-> FALSE, emit |-> FALSE]
         ELSE LET c == s.cp * 64 + (b - 128)
              IN IF s.rem > 1 THEN [st |-> [cp |-> c, min |-> s.min, rem |-> s.rem - 1], ok |-> TRUE, emit |-> FALSE]
                 ELSE IF c < s.min \/ (c >= 55296 /\ c <= 57343)            \* over-long, surrogate
                      THEN [st |-> s, ok |-> FALSE, emit |-> FALSE]
                      ELSE [st |-> [cp |-> c, min |-> 0, rem |-> 0], ok |-> TRUE, emit |-> TRUE]

(* feed a chunk: acc = [st, ok, cps, beyond]; stops at the first bad byte.  beyond records that a   *)
(* code point above U+10FFFF was completed: RFC 3629 forbids those, the pinned library accepts them  *)
(* and the property does not decide it - such texts are judged for chunking independence only.       *)
RECURSIVE Utf8Feed(_, _, _)
Utf8Feed(acc, t, i) ==
    IF i > Len(t) \/ ~acc.ok THEN acc
    ELSE LET s == Utf8Step(acc.st, t[i])
         IN Utf8Feed([st |-> s.st, ok |-> s.ok,
                      cps |-> IF s.ok /\ s.emit THEN Append(acc.cps, s.st.cp) ELSE acc.cps,
                      beyond |-> acc.beyond \/ (s.ok /\ s.emit /\ s.st.cp > 1114111)], t, i + 1)
Utf8Start(st) == [st |-> st, ok |-> TRUE, cps |-> <<>>, beyond |-> FALSE]
Utf8Update(st, chunk) == Utf8Feed(Utf8Start(st), chunk, 1)
(* a complete text: valid iff no byte was refused and no code point is left unfinished *)
Utf8Whole(t) == LET a == Utf8Update(Utf8Init, t)
                IN [ok |-> a.ok /\ a.st.rem = 0, cps |-> a.cps, beyond |-> a.beyond]

(* the same text delivered in chunks, then finalized: verdict and all code points delivered *)
RECURSIVE Utf8Chunked(_, _, _, _)
Utf8Chunked(st, chunks, i, cps) ==
    IF i > Len(chunks) THEN [ok |-> st.rem = 0, cps |-> cps]
    ELSE LET a == Utf8Update(st, chunks[i])
         IN IF ~a.ok THEN [ok |-> FALSE, cps |-> cps \o a.cps]
            ELSE Utf8Chunked(a.st, chunks, i + 1, cps \o a.cps)

(* Declarative cross-check (Unicode 15 table 3-7 "well-formed UTF-8 byte sequences" = RFC 3629      *)
(* section 4): the scalar value of the well-formed sequence starting at position i, if there is one *)
Cont(b) == b >= 128 /\ b <= 191
Utf8SeqLen(t, i) ==
    LET n == Len(t)
        b(j) == IF i + j <= n THEN t[i + j] ELSE -1
    IN IF b(0) >= 0 /\ b(0) <= 127 THEN 1
       ELSE IF b(0) >= 194 /\ b(0) <= 223 /\ Cont(b(1)) THEN 2
       ELSE IF b(0) = 224 /\ b(1) >= 160 /\ b(1) <= 191 /\ Cont(b(2)) THEN 3
       ELSE IF ((b(0) >= 225 /\ b(0) <= 236) \/ b(0) = 238 \/ b(0) = 239) /\ Cont(b(1)) /\ Cont(b(2)) THEN 3
       ELSE IF b(0) = 237 /\ b(1) >= 128 /\ b(1) <= 159 /\ Cont(b(2)) THEN 3
       ELSE IF b(0) = 240 /\ b(1) >= 144 /\ b(1) <= 191 /\ Cont(b(2)) /\ Cont(b(3)) THEN 4
       ELSE IF b(0) >= 241 /\ b(0) <= 243 /\ Cont(b(1)) /\ Cont(b(2)) /\ Cont(b(3)) THEN 4
       ELSE IF b(0) = 244 /\ b(1) >= 128 /\ b(1) <= 143 /\ Cont(b(2)) /\ Cont(b(3)) THEN 4
       ELSE 0
Utf8Scalar(t, i, len) ==
    CASE len = 1 -> t[i]
      [] len = 2 -> (t[i] - 192) * 64 + (t[i + 1] - 128)
      [] len = 3 -> (t[i] - 224) * 4096 + (t[i + 1] - 128) * 64 + (t[i + 2] - 128)
      [] len = 4 -> (t[i] - 240) * 262144 + (t[i + 1] - 128) * 4096 + (t[i + 2] - 128) * 64 + (t[i + 3] - 128)
RECURSIVE Utf8Table(_, _, _)
Utf8Table(t, i, cps) ==
    IF i > Len(t) THEN [ok |-> TRUE, cps |-> cps]
    ELSE LET len == Utf8SeqLen(t, i)
         IN IF len = 0 THEN [ok |-> FALSE, cps |-> cps]
            ELSE Utf8Table(t, i + len, Append(cps, Utf8Scalar(t, i, len)))
=============================================================================
