---- MODULE CodecMC_TTrace_1790464804 ----
EXTENDS CodecMC, Sequences, TLCExt, Toolbox, Naturals, TLC

_expression ==
    LET CodecMC_TEExpression == INSTANCE CodecMC_TEExpression
    IN CodecMC_TEExpression!expression
----

_trace ==
    LET CodecMC_TETrace == INSTANCE CodecMC_TETrace
    IN CodecMC_TETrace!trace
----

_inv ==
    ~(
        TLCGet("level") = Len(_TETrace)
        /\
        x = (<<47, 47, 61, 61>>)
    )
----

_init ==
    /\ x = _TETrace[1].x
----

_next ==
    /\ \E i,j \in DOMAIN _TETrace:
        /\ \/ /\ j = i + 1
              /\ i = TLCGet("level")
        /\ x  = _TETrace[i].x
        /\ x' = _TETrace[j].x

\* Uncomment the ASSUME below to write the states of the error trace
\* to the given file in Json format. Note that you can pass any tuple
\* to `JsonSerialize`. For example, a sub-sequence of _TETrace.
    \* ASSUME
    \*     LET J == INSTANCE Json
    \*         IN J!JsonSerialize("CodecMC_TTrace_1790464804.json", _TETrace)

=============================================================================

 Note that you can extract this module `CodecMC_TEExpression`
  to a dedicated file to reuse `expression` (the module in the 
  dedicated `CodecMC_TEExpression.tla` file takes precedence 
  over the module `CodecMC_TEExpression` below).

---- MODULE CodecMC_TEExpression ----
EXTENDS CodecMC, Sequences, TLCExt, Toolbox, Naturals, TLC

expression == 
    [
        \* To hide variables of the `CodecMC` spec from the error trace,
        \* remove the variables below.  The trace will be written in the order
        \* of the fields of this record.
        x |-> x
        
        \* Put additional constant-, state-, and action-level expressions here:
        \* ,_stateNumber |-> _TEPosition
        \* ,_xUnchanged |-> x = x'
        
        \* Format the `x` variable as Json value.
        \* ,_xJson |->
        \*     LET J == INSTANCE Json
        \*     IN J!ToJson(x)
        
        \* Lastly, you may build expressions over arbitrary sets of states by
        \* leveraging the _TETrace operator.  For example, this is how to
        \* count the number of times a spec variable changed up to the current
        \* state in the trace.
        \* ,_xModCount |->
        \*     LET F[s \in DOMAIN _TETrace] ==
        \*         IF s = 1 THEN 0
        \*         ELSE IF _TETrace[s].x # _TETrace[s-1].x
        \*             THEN 1 + F[s-1] ELSE F[s-1]
        \*     IN F[_TEPosition - 1]
    ]

=============================================================================



Parsing and semantic processing can take forever if the trace below is long.
 In this case, it is advised to uncomment the module below to deserialize the
 trace from a generated binary file.

\*
\*---- MODULE CodecMC_TETrace ----
\*EXTENDS CodecMC, IOUtils, TLC
\*
\*trace == IODeserialize("CodecMC_TTrace_1790464804.bin", TRUE)
\*
\*=============================================================================
\*

---- MODULE CodecMC_TETrace ----
EXTENDS CodecMC, TLC

trace == 
    <<
    ([x |-> <<>>]),
    ([x |-> <<47>>]),
    ([x |-> <<47, 47>>]),
    ([x |-> <<47, 47, 61>>]),
    ([x |-> <<47, 47, 61, 61>>])
    >>
----


=============================================================================

---- CONFIG CodecMC_TTrace_1790464804 ----
CONSTANTS
    WBase = 32768
    Alphabet <- AlphaText
    MaxLen = 5
    GenMode = FALSE

INVARIANT
    _inv

CHECK_DEADLOCK
    \* CHECK_DEADLOCK off because of PROPERTY or INVARIANT above.
    FALSE

INIT
    _init

NEXT
    _next

CONSTANT
    _TETrace <- _trace

ALIAS
    _expression
=============================================================================
\* Generated on Sat Sep 26 23:20:06 UTC 2026