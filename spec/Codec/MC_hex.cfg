SPECIFICATION Spec
CONSTANTS WBase = 32768
  Alphabet <- AlphaHex
  MaxLen = 4
  GenMode = FALSE
INVARIANTS HexCanonical
CHECK_DEADLOCK FALSE
