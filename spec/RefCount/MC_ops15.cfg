SPECIFICATION MCSpec
CONSTANTS WBase = 32768
  Bits = 28
  Cells = {1, 2}
  Thr = {}
  Family = "ticket"
  InitVals = {0}
INVARIANTS ATypeOK
CHECK_DEADLOCK TRUE
