SPECIFICATION MCSpec
CONSTANTS WBase = 4
  Bits = 3
  Cells = {1, 2}
  Thr = {0, 1, 2}
  Family = "once"
  InitVals = {0, 5}
INVARIANTS MCTypeOK Linear OnceOnly
CHECK_DEADLOCK TRUE
