SPECIFICATION MCSpec
CONSTANTS WBase = 4
  Bits = 3
  Cells = {1, 2}
  Thr = {0, 1, 2}
  Family = "xchg"
  InitVals = {0, 7}
INVARIANTS MCTypeOK Linear Tokens
CHECK_DEADLOCK TRUE
