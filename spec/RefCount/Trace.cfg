SPECIFICATION TSpec
CONSTANTS WBase = 32768
  Bits = 64
  Cells = {1, 2, 3, 4}
  Objs = {1, 2}
POSTCONDITION TraceAccepted
CHECK_DEADLOCK FALSE
