----------------------------- MODULE RefCountMC -----------------------------
(* The reference counter built on one atomic cell, N threads, every interleaving.                    *)
(* Each step of the algorithm (fetch_add for acquire; fetch_sub, then the callback if the previous   *)
(* value was ZeroAt = 1, for release) is taken TOGETHER with the event a user observes at that point  *)
(* (RefCount.tla): a step whose event the property-level specification refuses blocks the thread and  *)
(* shows up as a deadlock.  Ownership is explicit: held[t] = references thread t owns; a thread only   *)
(* acquires through a reference it owns and only releases what it owns (the documented usage; thread 0 *)
(* creates the object and acquires on behalf of the others before handing the pointer over).          *)
(* Checked: the counter equals the number of owned references at every moment, the callback runs       *)
(* exactly once, never while a reference is owned or a release is still in front of its decrement,     *)
(* nobody touches the counter afterwards, every behaviour ends with the callback having run.          *)
(* With ZeroAt = 2 (MC_rc_teeth.cfg) the same model must fail: the check has teeth.                    *)
EXTENDS Atomics, RefCount, TLC

CONSTANTS Thr,        \* 0..n-1, thread 0 creates the object
          Budget,     \* acquires each thread may make for itself
          ZeroAt      \* previous value of the decrement at which the algorithm invokes the callback (1)

VARIABLES held,       \* [Thr -> Nat]
          budget,     \* [Thr -> Nat]
          given,      \* threads that received their first reference from thread 0
          rpc,        \* [Thr -> {"idle", "begun", "cb"}]  progress of the thread's release call
          freed,      \* the callback ran (it destroys the object)
          uaf         \* the counter was touched after that
mvars == <<cell, flav, made, cnt, cb, pend, inrel, held, budget, given, rpc, freed, uaf>>

O == 1
C == 1
Vals == {VFromNat(n) : n \in 0..(2 ^ Bits - 1)}
Touch == uaf' = (uaf \/ freed)

MCInit ==
    /\ AInit0 /\ RInit0
    /\ held = [t \in Thr |-> 0] /\ budget = [t \in Thr |-> Budget] /\ given = {}
    /\ rpc = [t \in Thr |-> "idle"] /\ freed = FALSE /\ uaf = FALSE

MInit ==
    /\ ~made[O]
    /\ AInit(C, "int", VOne) /\ RcInit(0, O, VToNat(VOne))
    /\ held' = [held EXCEPT ![0] = 1]
    /\ UNCHANGED <<budget, given, rpc, freed, uaf>>

(* thread 0 acquires a reference for thread u and hands it over *)
MGive ==
    made[O] /\ \E u \in Thr \ ({0} \cup given) :
        /\ made[O] /\ held[0] >= 1 /\ rpc[0] = "idle"
        /\ \E prev \in Vals : AFetch(C, "add", "default", VOne, prev)
        /\ RcAcq(0, O, 1) /\ Touch
        /\ held' = [held EXCEPT ![u] = 1] /\ given' = given \cup {u}
        /\ UNCHANGED <<budget, rpc, freed>>

MAcquire ==
    made[O] /\ \E t \in Thr :
        /\ held[t] >= 1 /\ rpc[t] = "idle" /\ budget[t] > 0
        /\ \E prev \in Vals : AFetch(C, "add", "default", VOne, prev)
        /\ RcAcq(t, O, 1) /\ Touch
        /\ held' = [held EXCEPT ![t] = @ + 1] /\ budget' = [budget EXCEPT ![t] = @ - 1]
        /\ UNCHANGED <<given, rpc, freed>>

(* the caller gives the reference up when it makes the call *)
MRelBegin ==
    made[O] /\ \E t \in Thr :
        /\ held[t] >= 1 /\ rpc[t] = "idle"
        /\ RcRelBegin(t, O)
        /\ held' = [held EXCEPT ![t] = @ - 1] /\ rpc' = [rpc EXCEPT ![t] = "begun"]
        /\ UNCHANGED <<cell, flav, budget, given, freed, uaf>>

MRelDec ==
    made[O] /\ \E t \in Thr :
        /\ rpc[t] = "begun"
        /\ \E prev \in Vals :
              /\ AFetch(C, "sub", "default", VOne, prev) /\ Touch
              /\ IF prev = VFromNat(ZeroAt)
                 THEN RcZero(t, O, 1) /\ rpc' = [rpc EXCEPT ![t] = "cb"] /\ freed' = TRUE
                 ELSE RcRel(t, O, VToNat(VSub(prev, VOne))) /\ rpc' = [rpc EXCEPT ![t] = "idle"] /\ UNCHANGED freed
        /\ UNCHANGED <<held, budget, given>>

MCbRet ==
    made[O] /\ \E t \in Thr :
        /\ rpc[t] = "cb"
        /\ RcRel(t, O, 0) /\ rpc' = [rpc EXCEPT ![t] = "idle"]
        /\ UNCHANGED <<cell, flav, held, budget, given, freed, uaf>>

Quiet == made[O] /\ \A t \in Thr : held[t] = 0 /\ rpc[t] = "idle"
MDone == Quiet /\ UNCHANGED mvars

MCNext == MInit \/ MGive \/ MAcquire \/ MRelBegin \/ MRelDec \/ MCbRet \/ MDone
MCSpec == MCInit /\ [][MCNext]_mvars

Sum(f) == LET S[T \in SUBSET Thr] == IF T = {} THEN 0 ELSE LET x == CHOOSE x \in T : TRUE IN f[x] + S[T \ {x}]
          IN S[Thr]
Begun == Cardinality({t \in Thr : rpc[t] = "begun"})

NoWrap == made[O] => Sum(held) + Begun < 2 ^ Bits                         \* the model's cell is wide enough
CountIsOwned == (made[O] /\ ~freed) => VToNat(cell[C]) = Sum(held) + Begun
AbsAgrees == made[O] => cnt[O] = VToNat(cell[C])
NeverEarly == freed => (Sum(held) = 0 /\ Begun = 0)
NoUseAfterZero == ~uaf
EndsWithCallback == Quiet => (cb[O] = 1 /\ freed /\ RcQuiet)
=============================================================================
