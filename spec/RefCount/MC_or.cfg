SPECIFICATION MCSpec
CONSTANTS WBase = 4
  Bits = 3
  Cells = {1, 2}
  Thr = {0, 1, 2}
  Family = "or"
  InitVals = {0, 4}
INVARIANTS MCTypeOK Commutes Linear
CHECK_DEADLOCK TRUE
