SPECIFICATION MCSpec
CONSTANTS WBase = 4
  Bits = 4
  Cells = {1, 2}
  Thr = {0, 1, 2, 3}
  Family = "xchg"
  InitVals = {0}
INVARIANTS MCTypeOK Linear Tokens
CHECK_DEADLOCK TRUE
