------------------------------ MODULE RefCount ------------------------------
(* X05 (extra): aws_ref_count as documented in include/aws/common/ref_count.h, over what a user can  *)
(* observe: the calls of each thread with their results and the on-zero callback.                    *)
(*   init:    "After initialization, the ref count will be 1"; remembers object and callback.        *)
(*   acquire: "Increments a ref-counter's ref count", returns "the object being ref-counted".        *)
(*   release: "Decrements a ref-counter's ref count.  Invokes the on_zero callback if the ref count   *)
(*            drops to zero", returns "the value of the decremented ref count".                      *)
(* Events: RcInit, RcAcq (after the call returned), RcRelBegin (before the call), RcZero (inside the  *)
(* callback), RcRel (after the call returned).  The count changes at the event that reports it: for   *)
(* the release that reaches zero that is the callback (it runs inside the call), for every other      *)
(* release the return.  The property: the callback runs exactly once, on the thread whose release     *)
(* took the count to zero, while that release is in progress, with the registered object, and never   *)
(* while references remain; returned counts are the counts of one linear order of the calls; after    *)
(* the callback nobody uses the ref count again (each caller owns the references it releases, so a    *)
(* use after zero means the count was wrong).                                                        *)
EXTENDS Naturals, FiniteSets

CONSTANTS Objs           \* ids of ref-counted objects

VARIABLES made,          \* [Objs -> BOOLEAN]  initialised
          cnt,           \* [Objs -> Nat]      references outstanding
          cb,            \* [Objs -> Nat]      how often the on-zero callback ran
          pend,          \* [Objs -> thread | NoThread]  callback ran inside this thread's release, which has not returned yet
          inrel          \* [Objs -> SUBSET threads]     releases in progress
rvars == <<made, cnt, cb, pend, inrel>>
NoThread == 0 - 1

RInit0 ==
    /\ made = [o \in Objs |-> FALSE] /\ cnt = [o \in Objs |-> 0] /\ cb = [o \in Objs |-> 0]
    /\ pend = [o \in Objs |-> NoThread] /\ inrel = [o \in Objs |-> {}]

Alive(o) == o \in Objs /\ made[o] /\ cnt[o] >= 1

(* seen = the count read from the public struct right after aws_ref_count_init *)
RcInit(t, o, seen) ==
    /\ o \in Objs /\ ~made[o] /\ seen = 1
    /\ made' = [made EXCEPT ![o] = TRUE] /\ cnt' = [cnt EXCEPT ![o] = 1]
    /\ UNCHANGED <<cb, pend, inrel>>

(* the caller holds a reference, so the object is alive; objok: the call returned the registered object *)
RcAcq(t, o, objok) ==
    /\ Alive(o) /\ objok = 1
    /\ cnt' = [cnt EXCEPT ![o] = @ + 1]
    /\ UNCHANGED <<made, cb, pend, inrel>>

RcRelBegin(t, o) ==
    /\ Alive(o) /\ t \notin inrel[o]
    /\ inrel' = [inrel EXCEPT ![o] = @ \cup {t}]
    /\ UNCHANGED <<made, cnt, cb, pend>>

(* the callback: only from inside a release in progress on thread t, only when that release gives up the last      *)
(* reference, only once, with the registered object                                                              *)
RcZero(t, o, objok) ==
    /\ o \in Objs /\ made[o] /\ t \in inrel[o]
    /\ cnt[o] = 1 /\ cb[o] = 0 /\ pend[o] = NoThread /\ objok = 1
    /\ cnt' = [cnt EXCEPT ![o] = 0] /\ cb' = [cb EXCEPT ![o] = 1] /\ pend' = [pend EXCEPT ![o] = t]
    /\ UNCHANGED <<made, inrel>>

(* ret = the value the call returned.  Either this is the release whose callback already ran (returns 0), or    *)
(* references remain after it (a release that reaches zero without the callback having run is refused here)       *)
RcRel(t, o, ret) ==
    /\ o \in Objs /\ made[o] /\ t \in inrel[o]
    /\ IF pend[o] = t
       THEN /\ ret = 0 /\ cnt[o] = 0
            /\ pend' = [pend EXCEPT ![o] = NoThread] /\ cnt' = cnt
       ELSE /\ cnt[o] >= 2 /\ ret = cnt[o] - 1
            /\ cnt' = [cnt EXCEPT ![o] = @ - 1] /\ pend' = pend
    /\ inrel' = [inrel EXCEPT ![o] = @ \ {t}]
    /\ UNCHANGED <<made, cb>>

(* end of an execution: nothing in flight; live = blocks the harness allocator still holds (one per object that  *)
(* still has references: the callback is what frees it)                                                         *)
RcQuiet == \A o \in Objs : inrel[o] = {} /\ pend[o] = NoThread
RcLiveObjects == Cardinality({o \in Objs : made[o] /\ cnt[o] >= 1})

(* ---- the property, as state invariants (checked by TLC on RefCountMC; guards above enforce them on traces) *)
CbAtMostOnce == \A o \in Objs : cb[o] <= 1
CbIffZero == \A o \in Objs : made[o] => ((cb[o] = 1) <=> (cnt[o] = 0))
PendInRelease == \A o \in Objs : pend[o] # NoThread => (pend[o] \in inrel[o] /\ cb[o] = 1)
=============================================================================
