SPECIFICATION MCSpec
CONSTANTS WBase = 4
  Bits = 4
  Cells = {1, 2}
  Thr = {0, 1, 2, 3}
  Family = "once"
  InitVals = {0, 5}
INVARIANTS MCTypeOK Linear OnceOnly
CHECK_DEADLOCK TRUE
