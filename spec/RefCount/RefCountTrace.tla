--------------------------- MODULE RefCountTrace ---------------------------
(* Trace validation for X05: events recorded by harness/refcount_scenario.c while the real atomics  *)
(* and the real aws_ref_count run on several threads under the controlled scheduler (every atomic    *)
(* access is a schedule point, execution is serialised, an event is written right after its call      *)
(* returned with no schedule point in between: the order of the events is the order in which the      *)
(* operations took effect).  Every event must be a step of Atomics.tla / RefCount.tla from the state   *)
(* the earlier events produced.  64-bit values arrive as five base-2^15 limbs (vh_wide).              *)
EXTENDS Atomics, RefCount, TraceCommon

VARIABLES l
Ev == TraceLog[l]
NatOf(v) == IF WFitsNat(v) THEN WToNat(WNorm(v)) ELSE 0 - 1

TReset == /\ Ev.e = "Reset"
          /\ cell' = [c \in Cells |-> NoVal] /\ flav' = [c \in Cells |-> ""]
          /\ made' = [o \in Objs |-> FALSE] /\ cnt' = [o \in Objs |-> 0] /\ cb' = [o \in Objs |-> 0]
          /\ pend' = [o \in Objs |-> NoThread] /\ inrel' = [o \in Objs |-> {}]

TAInit == Ev.e = "AInit" /\ AInit(Ev.c, Ev.fl, Ev.v) /\ UNCHANGED rvars
TAStatic == Ev.e = "AStatic" /\ AStatic(Ev.c, Ev.fl, Ev.v) /\ UNCHANGED rvars
TLoad == Ev.e = "Load" /\ ALoad(Ev.c, Ev.fl, Ev.mo, Ev.r) /\ UNCHANGED rvars
TStore == Ev.e = "Store" /\ AStore(Ev.c, Ev.fl, Ev.mo, Ev.v) /\ UNCHANGED rvars
TXchg == Ev.e = "Xchg" /\ AXchg(Ev.c, Ev.fl, Ev.mo, Ev.v, Ev.r) /\ UNCHANGED rvars
TCas == Ev.e = "Cas" /\ ACas(Ev.c, Ev.fl, Ev.mo, Ev.mf, Ev.x, Ev.d, Ev.ok, Ev.xo) /\ UNCHANGED rvars
TFetch == Ev.e = "Fetch" /\ AFetch(Ev.c, Ev.op, Ev.mo, Ev.n, Ev.r) /\ UNCHANGED rvars
TFence == Ev.e = "Fence" /\ AFence(Ev.mo) /\ UNCHANGED rvars

TRcInit == Ev.e = "RcInit" /\ RcInit(Ev.t, Ev.o, NatOf(Ev.cnt)) /\ UNCHANGED avars
TRcAcq == Ev.e = "RcAcq" /\ RcAcq(Ev.t, Ev.o, Ev.objok) /\ UNCHANGED avars
TRcRelBegin == Ev.e = "RcRelBegin" /\ RcRelBegin(Ev.t, Ev.o) /\ UNCHANGED avars
TRcZero == Ev.e = "RcZero" /\ RcZero(Ev.t, Ev.o, Ev.objok) /\ UNCHANGED avars
TRcRel == Ev.e = "RcRel" /\ RcRel(Ev.t, Ev.o, NatOf(Ev.ret)) /\ UNCHANGED avars

(* every thread joined, nothing in flight, and the only blocks still allocated are objects that still have references *)
TEnd == /\ Ev.e = "End" /\ RcQuiet /\ Ev.live = RcLiveObjects /\ Ev.unjoined = 0 /\ Ev.anomalies = 0
        /\ UNCHANGED <<avars, rvars>>

TNext == l <= TraceLen /\ l' = l + 1 /\
         (TReset \/ TAInit \/ TAStatic \/ TLoad \/ TStore \/ TXchg \/ TCas \/ TFetch \/ TFence
            \/ TRcInit \/ TRcAcq \/ TRcRelBegin \/ TRcZero \/ TRcRel \/ TEnd)
TSpec == (l = 1 /\ AInit0 /\ RInit0) /\ [][TNext]_<<avars, rvars, l>>
=============================================================================
