SPECIFICATION MCSpec
CONSTANTS WBase = 4
  Bits = 3
  Cells = {1, 2}
  Thr = {0, 1, 2}
  Family = "and"
  InitVals = {7, 5}
INVARIANTS MCTypeOK Commutes Linear
CHECK_DEADLOCK TRUE
