SPECIFICATION MCSpec
CONSTANTS WBase = 4
  Bits = 4
  Cells = {1, 2}
  Thr = {0, 1, 2, 3}
  Family = "ticket"
  InitVals = {0, 14}
INVARIANTS MCTypeOK Commutes Linear Tickets
CHECK_DEADLOCK TRUE
