------------------------------ MODULE Atomics ------------------------------
(* X05 (extra): aws_atomic_var as documented in include/aws/common/atomics.h.                        *)
(* An atomic variable is one cell of Bits bits (size_t or void*, same storage).  Every operation is  *)
(* one indivisible step on the cell: this is the sequentially consistent reading; weaker memory      *)
(* orders only relax the ordering of OTHER memory accesses around the operation, never the value     *)
(* the operation itself reads or writes, so the requested order is an argument that the relation     *)
(* ignores (it only has to be one the header allows for that kind of operation).                    *)
(* Values are fixed-length little-endian limb vectors (base WBase, see Wide.tla): NL limbs, the top  *)
(* limb carries the remaining TopBits bits.  Traces use WBase = 2^15, Bits = 64 (5 limbs, top limb    *)
(* 4 bits, exactly what vh_wide logs); the model checker uses WBase = 4, Bits = 3.                   *)
(* Each action is a relation between the cell before, the arguments, the reported result and the    *)
(* cell afterwards.                                                                                 *)
EXTENDS Naturals, Sequences, FiniteSets, Wide

CONSTANTS Bits,     \* width of the cell
          Cells     \* ids of the atomic variables of an execution

VARIABLES cell,     \* [Cells -> value | NoVal]
          flav      \* [Cells -> "int" | "ptr" | ""]   which flavour of the API the variable was initialised with
avars == <<cell, flav>>

NL == (Bits + WLB - 1) \div WLB
TopBits == Bits - (NL - 1) * WLB
LimbMax(i) == IF i < NL THEN WBase - 1 ELSE 2 ^ TopBits - 1
NoVal == <<>>
IsVal(v) == Len(v) = NL /\ \A i \in 1..NL : v[i] \in 0..LimbMax(i)

(* any wide number reduced modulo 2^Bits, in the fixed-length representation *)
Fix(a) == [i \in 1..NL |-> IF i < NL THEN WLimb(a, i) ELSE WLimb(a, i) % (2 ^ TopBits)]
VZero == [i \in 1..NL |-> 0]
VOne == Fix(<<1>>)
VMax == [i \in 1..NL |-> LimbMax(i)]                              \* SIZE_MAX
VFromNat(n) == Fix(WFromNat(n))
VToNat(v) == WToNat(WNorm(v))                                     \* only for values that fit a TLC integer

VAdd(a, b) == Fix(WAdd(a, b))                                     \* wraps modulo 2^Bits
VSub(a, b) == Fix(WSub(WAdd(a, WPow2(Bits)), b))                  \* a + 2^Bits >= b always
BitF(op, x, y) == IF op = "or" THEN (IF x + y > 0 THEN 1 ELSE 0)
                  ELSE IF op = "and" THEN x * y
                  ELSE (x + y) % 2                                \* "xor"
LimbBitwise(op, x, y) ==
    LET s[j \in 0..WLB] == IF j = 0 THEN 0
                           ELSE s[j - 1] + BitF(op, (x \div 2 ^ (j - 1)) % 2, (y \div 2 ^ (j - 1)) % 2) * 2 ^ (j - 1)
    IN s[WLB]
VBitwise(op, a, b) == [i \in 1..NL |-> LimbBitwise(op, a[i], b[i])]

FetchOps == {"add", "sub", "or", "and", "xor"}
Apply(op, old, n) == IF op = "add" THEN VAdd(old, n)
                     ELSE IF op = "sub" THEN VSub(old, n)
                     ELSE VBitwise(op, old, n)

(* memory orders the header allows per kind of operation ("default" = the variant without _explicit, which is   *)
(* documented as sequentially consistent).  Acquire is meaningful on loads and load-stores, release on stores   *)
(* and load-stores; a compare-exchange failure order is no stronger than the success order and never release /  *)
(* acq_rel.                                                                                                      *)
Flavours == {"int", "ptr"}
LoadOrders == {"default", "relaxed", "acquire", "seq_cst"}
StoreOrders == {"default", "relaxed", "release", "seq_cst"}
RmwOrders == {"default", "relaxed", "acquire", "release", "acq_rel", "seq_cst"}
FenceOrders == RmwOrders \ {"default"}
CasOrders == {<<"default", "default">>, <<"relaxed", "relaxed">>, <<"acquire", "relaxed">>, <<"acquire", "acquire">>,
              <<"release", "relaxed">>, <<"acq_rel", "relaxed">>, <<"acq_rel", "acquire">>,
              <<"seq_cst", "relaxed">>, <<"seq_cst", "acquire">>, <<"seq_cst", "seq_cst">>}

AInit0 == cell = [c \in Cells |-> NoVal] /\ flav = [c \in Cells |-> ""]

Usable(c, fl) == c \in Cells /\ cell[c] # NoVal /\ flav[c] = fl      \* initialised before any other operation (header)

(* aws_atomic_init_int / aws_atomic_init_ptr, and the static initialisers AWS_ATOMIC_INIT_INT / _PTR *)
AInit(c, fl, v) ==
    /\ c \in Cells /\ fl \in Flavours /\ IsVal(v)
    /\ cell' = [cell EXCEPT ![c] = v] /\ flav' = [flav EXCEPT ![c] = fl]
AStatic(c, fl, v) ==
    /\ c \in Cells /\ cell[c] = NoVal /\ fl \in Flavours /\ IsVal(v)
    /\ cell' = [cell EXCEPT ![c] = v] /\ flav' = [flav EXCEPT ![c] = fl]

(* aws_atomic_load_{int,ptr}[_explicit]: returns the value, changes nothing *)
ALoad(c, fl, mo, r) ==
    /\ Usable(c, fl) /\ mo \in LoadOrders
    /\ r = cell[c]
    /\ UNCHANGED avars

(* aws_atomic_store_{int,ptr}[_explicit] *)
AStore(c, fl, mo, v) ==
    /\ Usable(c, fl) /\ mo \in StoreOrders /\ IsVal(v)
    /\ cell' = [cell EXCEPT ![c] = v] /\ UNCHANGED flav

(* aws_atomic_exchange_{int,ptr}[_explicit]: "returns the value that was previously in the atomic_var" *)
AXchg(c, fl, mo, v, r) ==
    /\ Usable(c, fl) /\ mo \in RmwOrders /\ IsVal(v)
    /\ r = cell[c]
    /\ cell' = [cell EXCEPT ![c] = v] /\ UNCHANGED flav

(* aws_atomic_compare_exchange_{int,ptr}[_explicit] (strong form).  e = the value of the caller's expected-slot   *)
(* on entry, eo = its value on return.                                                                             *)
(* Equal: the variable becomes desired, true is returned; the expected-slot still holds the value compared with.   *)
(* Different: false is returned, the expected-slot receives the variable's value, the variable is unchanged.       *)
ACas(c, fl, mo, mf, e, d, ok, eo) ==
    /\ Usable(c, fl) /\ <<mo, mf>> \in CasOrders /\ IsVal(e) /\ IsVal(d)
    /\ IF cell[c] = e
       THEN ok = 1 /\ eo = e /\ cell' = [cell EXCEPT ![c] = d]
       ELSE ok = 0 /\ eo = cell[c] /\ cell' = cell
    /\ UNCHANGED flav

(* aws_atomic_fetch_{add,sub,or,and,xor}[_explicit]: "returns the previous value of *var"; size_t arithmetic wraps *)
AFetch(c, op, mo, n, r) ==
    /\ Usable(c, "int") /\ op \in FetchOps /\ mo \in RmwOrders /\ IsVal(n)
    /\ r = cell[c]
    /\ cell' = [cell EXCEPT ![c] = Apply(op, cell[c], n)] /\ UNCHANGED flav

(* aws_atomic_thread_fence: ordering only, no value *)
AFence(mo) == mo \in FenceOrders /\ UNCHANGED avars

ATypeOK == \A c \in Cells : cell[c] = NoVal \/ IsVal(cell[c])
=============================================================================
