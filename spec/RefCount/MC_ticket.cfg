SPECIFICATION MCSpec
CONSTANTS WBase = 4
  Bits = 3
  Cells = {1, 2}
  Thr = {0, 1, 2}
  Family = "ticket"
  InitVals = {0, 5, 7}
INVARIANTS MCTypeOK Commutes Linear Tickets
CHECK_DEADLOCK TRUE
