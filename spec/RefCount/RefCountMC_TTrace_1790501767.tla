---- MODULE RefCountMC_TTrace_1790501767 ----
EXTENDS Sequences, TLCExt, Toolbox, Naturals, TLC, RefCountMC

_expression ==
    LET RefCountMC_TEExpression == INSTANCE RefCountMC_TEExpression
    IN RefCountMC_TEExpression!expression
----

_trace ==
    LET RefCountMC_TETrace == INSTANCE RefCountMC_TETrace
    IN RefCountMC_TETrace!trace
----

_inv ==
    ~(
        TLCGet("level") = Len(_TETrace)
        /\
        given = ({})
        /\
        rpc = ((0 :> "begun" @@ 1 :> "idle" @@ 2 :> "idle"))
        /\
        held = ((0 :> 0 @@ 1 :> 0 @@ 2 :> 0))
        /\
        made = (<<TRUE>>)
        /\
        cnt = (<<1>>)
        /\
        freed = (FALSE)
        /\
        cell = (<<<<1, 0>>>>)
        /\
        inrel = (<<{0}>>)
        /\
        flav = (<<"int">>)
        /\
        uaf = (FALSE)
        /\
        cb = (<<0>>)
        /\
        pend = (<<-1>>)
        /\
        budget = ((0 :> 1 @@ 1 :> 1 @@ 2 :> 1))
    )
----

_init ==
    /\ flav = _TETrace[1].flav
    /\ made = _TETrace[1].made
    /\ cb = _TETrace[1].cb
    /\ inrel = _TETrace[1].inrel
    /\ pend = _TETrace[1].pend
    /\ rpc = _TETrace[1].rpc
    /\ cnt = _TETrace[1].cnt
    /\ uaf = _TETrace[1].uaf
    /\ given = _TETrace[1].given
    /\ held = _TETrace[1].held
    /\ freed = _TETrace[1].freed
    /\ cell = _TETrace[1].cell
    /\ budget = _TETrace[1].budget
----

_next ==
    /\ \E i,j \in DOMAIN _TETrace:
        /\ \/ /\ j = i + 1
              /\ i = TLCGet("level")
        /\ flav  = _TETrace[i].flav
        /\ flav' = _TETrace[j].flav
        /\ made  = _TETrace[i].made
        /\ made' = _TETrace[j].made
        /\ cb  = _TETrace[i].cb
        /\ cb' = _TETrace[j].cb
        /\ inrel  = _TETrace[i].inrel
        /\ inrel' = _TETrace[j].inrel
        /\ pend  = _TETrace[i].pend
        /\ pend' = _TETrace[j].pend
        /\ rpc  = _TETrace[i].rpc
        /\ rpc' = _TETrace[j].rpc
        /\ cnt  = _TETrace[i].cnt
        /\ cnt' = _TETrace[j].cnt
        /\ uaf  = _TETrace[i].uaf
        /\ uaf' = _TETrace[j].uaf
        /\ given  = _TETrace[i].given
        /\ given' = _TETrace[j].given
        /\ held  = _TETrace[i].held
        /\ held' = _TETrace[j].held
        /\ freed  = _TETrace[i].freed
        /\ freed' = _TETrace[j].freed
        /\ cell  = _TETrace[i].cell
        /\ cell' = _TETrace[j].cell
        /\ budget  = _TETrace[i].budget
        /\ budget' = _TETrace[j].budget

\* Uncomment the ASSUME below to write the states of the error trace
\* to the given file in Json format. Note that you can pass any tuple
\* to `JsonSerialize`. For example, a sub-sequence of _TETrace.
    \* ASSUME
    \*     LET J == INSTANCE Json
    \*         IN J!JsonSerialize("RefCountMC_TTrace_1790501767.json", _TETrace)

=============================================================================

 Note that you can extract this module `RefCountMC_TEExpression`
  to a dedicated file to reuse `expression` (the module in the 
  dedicated `RefCountMC_TEExpression.tla` file takes precedence 
  over the module `RefCountMC_TEExpression` below).

---- MODULE RefCountMC_TEExpression ----
EXTENDS Sequences, TLCExt, Toolbox, Naturals, TLC, RefCountMC

expression == 
    [
        \* To hide variables of the `RefCountMC` spec from the error trace,
        \* remove the variables below.  The trace will be written in the order
        \* of the fields of this record.
        flav |-> flav
        ,made |-> made
        ,cb |-> cb
        ,inrel |-> inrel
        ,pend |-> pend
        ,rpc |-> rpc
        ,cnt |-> cnt
        ,uaf |-> uaf
        ,given |-> given
        ,held |-> held
        ,freed |-> freed
        ,cell |-> cell
        ,budget |-> budget
        
        \* Put additional constant-, state-, and action-level expressions here:
        \* ,_stateNumber |-> _TEPosition
        \* ,_flavUnchanged |-> flav = flav'
        
        \* Format the `flav` variable as Json value.
        \* ,_flavJson |->
        \*     LET J == INSTANCE Json
        \*     IN J!ToJson(flav)
        
        \* Lastly, you may build expressions over arbitrary sets of states by
        \* leveraging the _TETrace operator.  For example, this is how to
        \* count the number of times a spec variable changed up to the current
        \* state in the trace.
        \* ,_flavModCount |->
        \*     LET F[s \in DOMAIN _TETrace] ==
        \*         IF s = 1 THEN 0
        \*         ELSE IF _TETrace[s].flav # _TETrace[s-1].flav
        \*             THEN 1 + F[s-1] ELSE F[s-1]
        \*     IN F[_TEPosition - 1]
    ]

=============================================================================



Parsing and semantic processing can take forever if the trace below is long.
 In this case, it is advised to uncomment the module below to deserialize the
 trace from a generated binary file.

\*
\*---- MODULE RefCountMC_TETrace ----
\*EXTENDS IOUtils, TLC, RefCountMC
\*
\*trace == IODeserialize("RefCountMC_TTrace_1790501767.bin", TRUE)
\*
\*=============================================================================
\*

---- MODULE RefCountMC_TETrace ----
EXTENDS TLC, RefCountMC

trace == 
    <<
    ([given |-> {},rpc |-> (0 :> "idle" @@ 1 :> "idle" @@ 2 :> "idle"),held |-> (0 :> 0 @@ 1 :> 0 @@ 2 :> 0),made |-> <<FALSE>>,cnt |-> <<0>>,freed |-> FALSE,cell |-> <<<<>>>>,inrel |-> <<{}>>,flav |-> <<"">>,uaf |-> FALSE,cb |-> <<0>>,pend |-> <<-1>>,budget |-> (0 :> 1 @@ 1 :> 1 @@ 2 :> 1)]),
    ([given |-> {},rpc |-> (0 :> "idle" @@ 1 :> "idle" @@ 2 :> "idle"),held |-> (0 :> 1 @@ 1 :> 0 @@ 2 :> 0),made |-> <<TRUE>>,cnt |-> <<1>>,freed |-> FALSE,cell |-> <<<<1, 0>>>>,inrel |-> <<{}>>,flav |-> <<"int">>,uaf |-> FALSE,cb |-> <<0>>,pend |-> <<-1>>,budget |-> (0 :> 1 @@ 1 :> 1 @@ 2 :> 1)]),
    ([given |-> {},rpc |-> (0 :> "begun" @@ 1 :> "idle" @@ 2 :> "idle"),held |-> (0 :> 0 @@ 1 :> 0 @@ 2 :> 0),made |-> <<TRUE>>,cnt |-> <<1>>,freed |-> FALSE,cell |-> <<<<1, 0>>>>,inrel |-> <<{0}>>,flav |-> <<"int">>,uaf |-> FALSE,cb |-> <<0>>,pend |-> <<-1>>,budget |-> (0 :> 1 @@ 1 :> 1 @@ 2 :> 1)])
    >>
----


=============================================================================

---- CONFIG RefCountMC_TTrace_1790501767 ----
CONSTANTS
    WBase = 4
    Bits = 3
    Cells = { 1 }
    Objs = { 1 }
    Thr = { 0 , 1 , 2 }
    Budget = 1
    ZeroAt = 2

INVARIANT
    _inv

CHECK_DEADLOCK
    \* CHECK_DEADLOCK off because of PROPERTY or INVARIANT above.
    FALSE

INIT
    _init

NEXT
    _next

CONSTANT
    _TETrace <- _trace

ALIAS
    _expression
=============================================================================
\* Generated on Sun Sep 27 09:36:09 UTC 2026