SPECIFICATION MCSpec
CONSTANTS WBase = 4
  Bits = 4
  Cells = {1}
  Objs = {1}
  Thr = {0, 1, 2}
  Budget = 2
  ZeroAt = 1
INVARIANTS ATypeOK NoWrap CountIsOwned AbsAgrees NeverEarly NoUseAfterZero EndsWithCallback CbAtMostOnce CbIffZero PendInRelease
CHECK_DEADLOCK TRUE
