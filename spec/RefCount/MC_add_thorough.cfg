SPECIFICATION MCSpec
CONSTANTS WBase = 4
  Bits = 4
  Cells = {1, 2}
  Thr = {0, 1, 2, 3}
  Family = "addlong"
  InitVals = {0, 7}
INVARIANTS MCTypeOK Commutes Linear
CHECK_DEADLOCK TRUE
