SPECIFICATION MCSpec
CONSTANTS WBase = 4
  Bits = 3
  Cells = {1, 2}
  Thr = {0, 1, 2}
  Family = "mixed"
  InitVals = {5}
INVARIANTS MCTypeOK Linear
CHECK_DEADLOCK TRUE
