----------------------------- MODULE AtomicsMC -----------------------------
(* Bounded exhaustive exploration of Atomics.tla: N threads, each a short program of operations on  *)
(* shared cells, every interleaving (one operation = one step: that is the contract).  The operator  *)
(* definitions on limb vectors are checked against native arithmetic (DefOps), and per family of     *)
(* programs the consequences users rely on:                                                         *)
(*   add / or / and / xor  the final value does not depend on the interleaving (Commutes), a CAS      *)
(*                         retry loop adds exactly once; fetch_add(1) hands out distinct tickets      *)
(*   once                  of several compare-exchanges from the same expected value exactly one      *)
(*                         succeeds and every loser is told the winner's value                        *)
(*   xchg                  exchange hands every value to exactly one caller (nothing lost, nothing     *)
(*                         duplicated)                                                                 *)
EXTENDS Atomics, TLC

CONSTANTS Thr,         \* thread ids 0..n-1
          Family,      \* "add" | "addlong" | "ticket" | "or" | "and" | "xor" | "once" | "xchg" | "mixed"
          InitVals     \* initial values (naturals) of cell 1 to explore

VARIABLES pc,          \* [Thr -> 1..]   next operation of each thread
          seen,        \* [Thr -> value] what the thread last observed in cell 1 (feeds its CAS loop)
          hist,        \* completed operations in the order they took effect
          init0        \* the initial value of this behaviour
mcvars == <<cell, flav, pc, seen, hist, init0>>

Two(b) == 2 ^ b
Vals == IF Bits <= 8 THEN {VFromNat(n) : n \in 0..(Two(Bits) - 1)} ELSE {}    \* (TLC evaluates constant definitions eagerly)

(* ---- operator definitions against native arithmetic *)
NatBitwise(op, x, y) ==
    LET s[j \in 0..Bits] == IF j = 0 THEN 0
                            ELSE s[j - 1] + BitF(op, (x \div Two(j - 1)) % 2, (y \div Two(j - 1)) % 2) * Two(j - 1)
    IN s[Bits]
OpSample == IF Bits <= 6 THEN 0..(Two(Bits) - 1)
            ELSE {0, 1, 2, 3, WBase - 1, WBase, WBase + 1, 2 * WBase - 1, Two(Bits) - 1, Two(Bits) - 2, Two(Bits - 1),
                  Two(Bits - 1) - 1, Two(Bits - 1) + 1, 12345678 % Two(Bits), 89478485 % Two(Bits), 178956970 % Two(Bits)}
DefOps ==
    \A x \in OpSample, y \in OpSample :
        /\ IsVal(VFromNat(x)) /\ VToNat(VFromNat(x)) = x
        /\ VToNat(VAdd(VFromNat(x), VFromNat(y))) = (x + y) % Two(Bits)
        /\ VToNat(VSub(VFromNat(x), VFromNat(y))) = (x + Two(Bits) - y) % Two(Bits)
        /\ IsVal(VAdd(VFromNat(x), VFromNat(y))) /\ IsVal(VSub(VFromNat(x), VFromNat(y)))
        /\ \A op \in {"or", "and", "xor"} :
              /\ VToNat(VBitwise(op, VFromNat(x), VFromNat(y))) = NatBitwise(op, x, y)
              /\ IsVal(VBitwise(op, VFromNat(x), VFromNat(y)))
ASSUME DefOps
ASSUME VToNat(VMax) = Two(Bits) - 1 /\ VToNat(VZero) = 0 /\ VToNat(VOne) = 1

(* ---- programs *)
F(op, n) == [k |-> "fetch", op |-> op, c |-> 1, n |-> n, d |-> 0]
X(n) == [k |-> "xchg", op |-> "", c |-> 1, n |-> n, d |-> 0]
C(e, d) == [k |-> "cas", op |-> "", c |-> 1, n |-> e, d |-> d]
CA(n) == [k |-> "casadd", op |-> "", c |-> 1, n |-> n, d |-> 0]
Ld(c) == [k |-> "load", op |-> "", c |-> c, n |-> 0, d |-> 0]
St(c, n) == [k |-> "store", op |-> "", c |-> c, n |-> n, d |-> 0]
F2(op, n) == [k |-> "fetch", op |-> op, c |-> 2, n |-> n, d |-> 0]

Prog(t) ==
    CASE Family = "add" -> <<CA(2), F(IF t % 2 = 0 THEN "add" ELSE "sub", t + 1)>>
      [] Family = "addlong" -> <<F("add", t + 1), CA(2), F("sub", 3)>>
      [] Family = "ticket" -> <<F("add", 1), F("add", 1)>>
      [] Family = "or" -> <<F("or", Two(t % Bits)), F("or", 1 + Two((t + 1) % Bits))>>
      [] Family = "and" -> <<F("and", Two(Bits) - 1 - Two(t % Bits)), F("and", Two(Bits) - 2)>>
      [] Family = "xor" -> <<F("xor", t + 1), F("xor", Two(Bits) - 1), F("xor", t + 1)>>
      [] Family = "once" -> <<C(0, t + 1), Ld(1)>>
      [] Family = "xchg" -> <<X(2 * t + 1), X(2 * t + 2)>>
      [] Family = "mixed" -> IF t = 0 THEN <<St(1, 5), F2("add", 1), C(5, 6)>>
                             ELSE IF t = 1 THEN <<F("or", 2), X(7), Ld(2)>>
                             ELSE <<Ld(1), CA(1), St(2, 3)>>

Running(t) == pc[t] <= Len(Prog(t))
Cur(t) == Prog(t)[pc[t]]
Rec(t, r, ok) == hist' = Append(hist, [t |-> t, i |-> pc[t], r |-> r, ok |-> ok])
Adv(t) == pc' = [pc EXCEPT ![t] = @ + 1]
See(t, c, v) == seen' = IF c = 1 THEN [seen EXCEPT ![t] = v] ELSE seen

AllDone == \A t \in Thr : ~Running(t)

MCInit ==
    /\ \E n \in InitVals : /\ init0 = n
                           /\ cell = [c \in Cells |-> VFromNat(n)]
    /\ flav = [c \in Cells |-> "int"]
    /\ pc = [t \in Thr |-> 1] /\ hist = <<>>
    /\ seen = [t \in Thr |-> cell[1]]        \* every thread was told the initial value when it was started

MCLoad == ~AllDone /\ \E t \in Thr : /\ Running(t) /\ Cur(t).k = "load"
                         /\ \E r \in Vals : ALoad(Cur(t).c, "int", "acquire", r) /\ Rec(t, r, 1) /\ See(t, Cur(t).c, r)
                         /\ Adv(t) /\ UNCHANGED init0
MCStore == ~AllDone /\ \E t \in Thr : /\ Running(t) /\ Cur(t).k = "store"
                          /\ AStore(Cur(t).c, "int", "release", VFromNat(Cur(t).n))
                          /\ Rec(t, VFromNat(Cur(t).n), 1) /\ See(t, Cur(t).c, VFromNat(Cur(t).n))
                          /\ Adv(t) /\ UNCHANGED init0
MCXchg == ~AllDone /\ \E t \in Thr : /\ Running(t) /\ Cur(t).k = "xchg"
                         /\ \E r \in Vals : AXchg(Cur(t).c, "int", "acq_rel", VFromNat(Cur(t).n), r) /\ Rec(t, r, 1)
                         /\ See(t, Cur(t).c, VFromNat(Cur(t).n))
                         /\ Adv(t) /\ UNCHANGED init0
MCCas == ~AllDone /\ \E t \in Thr : /\ Running(t) /\ Cur(t).k = "cas"
                        /\ \E ok \in {0, 1}, eo \in Vals :
                              /\ ACas(Cur(t).c, "int", "seq_cst", "acquire", VFromNat(Cur(t).n), VFromNat(Cur(t).d), ok, eo)
                              /\ Rec(t, eo, ok)
                              /\ See(t, Cur(t).c, IF ok = 1 THEN VFromNat(Cur(t).d) ELSE eo)
                        /\ Adv(t) /\ UNCHANGED init0
(* the lock-free read-modify-write idiom: retry the compare-exchange with the value it reported until it succeeds *)
MCCasAdd == ~AllDone /\ \E t \in Thr : /\ Running(t) /\ Cur(t).k = "casadd"
                           /\ LET e == seen[t]
                                  d == VAdd(e, VFromNat(Cur(t).n)) IN
                              \E ok \in {0, 1}, eo \in Vals :
                                 /\ ACas(1, "int", "default", "default", e, d, ok, eo)
                                 /\ Rec(t, eo, ok)
                                 /\ seen' = [seen EXCEPT ![t] = IF ok = 1 THEN d ELSE eo]
                                 /\ pc' = IF ok = 1 THEN [pc EXCEPT ![t] = @ + 1] ELSE pc
                           /\ UNCHANGED init0
MCFetch == ~AllDone /\ \E t \in Thr : /\ Running(t) /\ Cur(t).k = "fetch"
                          /\ \E r \in Vals : /\ AFetch(Cur(t).c, Cur(t).op, "relaxed", VFromNat(Cur(t).n), r) /\ Rec(t, r, 1)
                                             /\ See(t, Cur(t).c, Apply(Cur(t).op, r, VFromNat(Cur(t).n)))
                          /\ Adv(t) /\ UNCHANGED init0
MCFence == ~AllDone /\ \E t \in Thr : Running(t) /\ AFence("seq_cst") /\ UNCHANGED <<pc, seen, hist, init0>>
MCDone == AllDone /\ UNCHANGED mcvars

MCNext == MCLoad \/ MCStore \/ MCXchg \/ MCCas \/ MCCasAdd \/ MCFetch \/ MCFence \/ MCDone
MCSpec == MCInit /\ [][MCNext]_mcvars

(* ---- consequences *)
MCTypeOK == ATypeOK /\ \A c \in Cells : IsVal(cell[c])

(* the operations (t, i) completed so far, applied in the fixed order (thread, index) instead of the order they took  *)
(* effect in: for a family of operations of one commutative kind the result must be the same                       *)
ThrSeq == LET n == Cardinality(Thr) IN [j \in 1..n |-> j - 1]         \* Thr = 0..n-1
EffectOf(o, v) == IF o.k = "fetch" THEN Apply(o.op, v, VFromNat(o.n))
                  ELSE IF o.k = "casadd" THEN VAdd(v, VFromNat(o.n))
                  ELSE v
ThreadFold(t, v0) == LET f[i \in 0..Len(Prog(t))] ==
                            IF i = 0 THEN v0 ELSE IF i < pc[t] THEN EffectOf(Prog(t)[i], f[i - 1]) ELSE f[i - 1]
                     IN f[Len(Prog(t))]
CanonFold == LET g[j \in 0..Len(ThrSeq)] == IF j = 0 THEN VFromNat(init0) ELSE ThreadFold(ThrSeq[j], g[j - 1])
             IN g[Len(ThrSeq)]
Commutes == Family \in {"add", "addlong", "or", "and", "xor", "ticket"} => cell[1] = CanonFold

(* every reported "previous value" is the value the cell had: replaying the history from the initial value *)
Replay == LET h[j \in 0..Len(hist)] ==
                 IF j = 0 THEN VFromNat(init0)
                 ELSE LET e == hist[j]
                          o == Prog(e.t)[e.i] IN
                      IF o.c # 1 THEN h[j - 1]
                      ELSE IF o.k \in {"fetch"} THEN Apply(o.op, h[j - 1], VFromNat(o.n))
                      ELSE IF o.k \in {"xchg", "store"} THEN VFromNat(o.n)
                      ELSE IF o.k = "cas" /\ e.ok = 1 THEN VFromNat(o.d)
                      ELSE IF o.k = "casadd" /\ e.ok = 1 THEN VAdd(h[j - 1], VFromNat(o.n))
                      ELSE h[j - 1]
          IN h
Linear == Replay[Len(hist)] = cell[1]

Tickets == Family = "ticket" =>
              /\ \A i, j \in 1..Len(hist) : i # j => hist[i].r # hist[j].r
              /\ (Len(hist) <= Two(Bits)) =>
                    {VToNat(hist[i].r) : i \in 1..Len(hist)} = {(init0 + j) % Two(Bits) : j \in 0..(Len(hist) - 1)}

Winners == {i \in 1..Len(hist) : Prog(hist[i].t)[hist[i].i].k = "cas" /\ hist[i].ok = 1}
OnceOnly == Family = "once" =>
              /\ Cardinality(Winners) <= 1
              /\ \A i \in 1..Len(hist) :
                    LET o == Prog(hist[i].t)[hist[i].i] IN
                    /\ (o.k = "cas" /\ hist[i].ok = 0) =>
                          IF init0 # 0 THEN hist[i].r = VFromNat(init0)
                          ELSE (Winners # {} /\ \A w \in Winners : w < i /\ hist[i].r = VFromNat(Prog(hist[w].t)[hist[w].i].d))
                    /\ (o.k = "load" /\ Winners # {}) =>
                          \A w \in Winners : w < i => hist[i].r = VFromNat(Prog(hist[w].t)[hist[w].i].d)
              /\ (AllDone /\ init0 = 0) => Cardinality(Winners) = 1
              /\ (init0 # 0) => Winners = {}

(* exchange: the values handed back so far plus the value now in the cell = the initial value plus the values stored *)
Tokens == Family = "xchg" =>
              LET out == {hist[i].r : i \in 1..Len(hist)} \cup {cell[1]}
                  inn == {VFromNat(init0)} \cup {VFromNat(Prog(hist[i].t)[hist[i].i].n) : i \in 1..Len(hist)}
              IN out = inn /\ Cardinality(out) = Len(hist) + 1
=============================================================================
