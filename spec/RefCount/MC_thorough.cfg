SPECIFICATION MCSpec
CONSTANTS WBase = 4
  Bits = 5
  Cells = {1, 2}
  Thr = {0, 1, 2}
  Family = "mixed"
  InitVals = {0, 5}
INVARIANTS MCTypeOK Linear
CHECK_DEADLOCK TRUE
