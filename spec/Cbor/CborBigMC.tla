------------------------------ MODULE CborBigMC ------------------------------
(* every history of writes / resets / decoders over a few lengths around the head-form boundaries and the        *)
(* megabyte marks (contents are parameters, not data): the definitions are consistent - what a decoder hands out  *)
(* is what was written, in order, and it ends with nothing remaining                                              *)
EXTENDS CborBig, TLC
CONSTANTS Lens, MaxItems
VARIABLES popped     \* history: what the current decoder has handed out
mcvars == <<items, dec, popped>>
MCInit == Init /\ popped = <<>>
MCWrite == /\ Len(items) < MaxItems
           /\ \E k \in {"bytes", "text"}, n \in Lens, a \in {7}, s \in {255} :
                LET it == [k |-> k, a |-> a, s |-> s, n |-> n] IN
                WriteBig(k, a, s, n, HeadBytes(Major(k), n), 1, ItemLen(it), Total(Append(items, it)))
           /\ UNCHANGED popped
MCReset == EncReset(0) /\ UNCHANGED popped
MCDecNew == DecNew(Total(items), Total(items)) /\ popped' = <<>>
MCDecFree == DecFree /\ popped' = <<>>
MCPop == /\ dec.live /\ dec.pos <= Len(dec.its)
         /\ LET it == dec.its[dec.pos] IN PopBig(0, it.k, it.a, it.s, it.n, 1, Sum(dec.its, dec.pos + 1))
         /\ popped' = Append(popped, dec.its[dec.pos])
MCPopEnd == dec.live /\ dec.pos > Len(dec.its) /\ PopBig(1, "bytes", 0, 0, 0, 0, 0) /\ UNCHANGED popped
MCNext == MCWrite \/ MCReset \/ MCDecNew \/ MCDecFree \/ MCPop \/ MCPopEnd
MCSpec == MCInit /\ [][MCNext]_mcvars
(* what was handed out is a prefix of what the decoder was made over; after everything, nothing remains *)
PrefixInv == dec.live => (popped = SubSeq(dec.its, 1, dec.pos - 1))
EndInv == (dec.live /\ dec.pos > Len(dec.its)) => Sum(dec.its, dec.pos) = 0
TotalInv == Total(items) >= Len(items)
=============================================================================
