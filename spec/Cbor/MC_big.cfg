SPECIFICATION MCSpec
CONSTANTS
  Lens = {0, 23, 24, 255, 256, 65535, 65536, 4194304, 6291456}
  MaxItems = 2
INVARIANTS PrefixInv EndInv TotalInv
CHECK_DEADLOCK FALSE
