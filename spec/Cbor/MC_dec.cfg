SPECIFICATION MCSpec
CONSTANTS DecIds = {1}
  Universe <- UniDec
  FloatSet <- NoFloats
  MaxLen = 3
  MaxOps = 5
  GenDepth = 0
INVARIANTS DecInv EndsInv
VIEW View
CHECK_DEADLOCK FALSE
