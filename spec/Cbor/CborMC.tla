------------------------------- MODULE CborMC -------------------------------
(* Bounded exploration of Cbor.tla.                                                                         *)
(*   MC.cfg        every item sequence of length <= 4 over 19 items (thorough: <= 5) - every kind, both      *)
(*                 sides of a head-width boundary, containers nesting up to MaxLen deep: RoundTrip (the independent  *)
(*                 reader DecAll inverts EncAll), SkipAgree (whole-item skipping on items = on bytes, for    *)
(*                 every start position, complete or truncated), EndsInv                                    *)
(*   MC_dec.cfg    the decoder state machine over every item sequence of a smaller universe: every order of  *)
(*                 peek / pop (right and wrong type) / skip-one / skip-whole / remaining; DecInv            *)
(*   MC_float.cfg  write_float over doubles built from field patterns (2 signs x boundary exponents x        *)
(*                 mantissa patterns): the narrowed item reads back as the same number, and it is the        *)
(*                 smallest of the three forms by construction of Narrow; plus the ASSUME table below        *)
(*   Gen.cfg       simulation: encoder programs followed by decoder programs, printed as scripts             *)
EXTENDS Cbor, TLC, Json

CONSTANTS Universe, FloatSet, MaxLen, MaxOps, GenDepth
VARIABLES hist, nops
mcvars == <<items, ends, decs, hist, nops>>

U(n) == It("uint", W8(n))
UniSmall == {U(0), U(23), U(24), U(256), It("negint", W8(0)), It("bytes", <<>>), It("bytes", <<1, 2>>), It("text", <<97>>),
             It("array", W8(0)), It("array", W8(1)), It("array", W8(2)), It("map", W8(1)), It("tag", W8(1)),
             It("bool", <<1>>), It("null", <<>>), It("undef", <<>>), It("ibytes", <<>>), It("itext", <<>>),
             It("iarray", <<>>), It("imap", <<>>), It("break", <<>>),
             It("f32", <<63, 192, 0, 0>>), It("f64", <<63, 185, 153, 153, 153, 153, 153, 154>>)}
UniQuick == UniSmall \ {U(0), It("undef", <<>>), It("itext", <<>>), It("array", W8(0))}
UniDec == {U(1), It("text", <<97>>), It("array", W8(1)), It("map", W8(1)), It("tag", W8(1)),
           It("iarray", <<>>), It("break", <<>>), It("f32", <<63, 192, 0, 0>>), It("null", <<>>)}
UniGen == UniSmall \cup
          {U(255), U(65535), U(65536), It("uint", <<0, 0, 0, 0, 255, 255, 255, 255>>), It("uint", <<0, 0, 0, 1, 0, 0, 0, 0>>),
           It("uint", <<255, 255, 255, 255, 255, 255, 255, 255>>), It("negint", W8(23)), It("negint", W8(24)),
           It("negint", <<127, 255, 255, 255, 255, 255, 255, 255>>), It("negint", <<255, 255, 255, 255, 255, 255, 255, 255>>),
           It("tag", W8(0)), It("tag", W8(24)), It("tag", <<0, 0, 0, 0, 0, 1, 0, 0>>), It("array", W8(3)), It("map", W8(0)),
           It("map", W8(2)), It("bool", <<0>>), It("bytes", <<0, 255, 7>>), It("text", <<228, 184, 173, 97>>)}
NoFloats == {}

(* doubles from field patterns *)
ExpSet == {0, 1, 873, 874, 875, 896, 897, 898, 1022, 1023, 1024, 1046, 1047, 1074, 1075, 1076, 1084, 1085, 1086,
           1087, 1149, 1150, 1151, 2046, 2047}
MantSet == {Zeros(52), Zeros(51) \o <<1>>, <<1>> \o Zeros(51), Ones(52), Ones(23) \o Zeros(29), Ones(24) \o Zeros(28),
            Zeros(22) \o <<1>> \o Zeros(29), Zeros(23) \o <<1>> \o Zeros(28), Zeros(28) \o <<1>> \o Zeros(23),
            <<1, 0, 1>> \o Zeros(49), Zeros(9) \o <<1>> \o Zeros(42), Zeros(10) \o <<1>> \o Zeros(41)}
FloatPatterns == {Bytes(<<s>> \o NatBits(e, 11) \o m) : s \in {0, 1}, e \in ExpSet, m \in MantSet}
FloatGen == {Bytes(<<s>> \o NatBits(e, 11) \o m) : s \in {0, 1}, e \in {0, 897, 1023, 1024, 1047, 1076, 1086, 1150, 2047},
                                                   m \in {Zeros(52), <<1>> \o Zeros(51), Ones(23) \o Zeros(29), Ones(52)}}

Rec(o) == hist' = IF GenDepth > 0 THEN Append(hist, o) ELSE hist
G == /\ GenDepth > 0 => Len(hist) < GenDepth
     /\ nops < MaxOps
Op(name, d, k, v) == [op |-> name, d |-> d, k |-> k, v |-> v]

MCInit == Init /\ hist = <<>> /\ nops = 0

MCWrite == /\ Len(items) < MaxLen /\ (\A d \in DecIds : ~decs[d].live)
           /\ \E it \in Universe : Write(it, Enc(it)) /\ Rec(Op("W", 0, it.k, it.v))
           /\ UNCHANGED nops
MCWriteFloat == /\ Len(items) < MaxLen /\ (\A d \in DecIds : ~decs[d].live)
                /\ \E b \in FloatSet : ~IsNaN64(b) /\ WriteFloat(b, Enc(Narrow(b))) /\ Rec(Op("WF", 0, "float", b))
                /\ UNCHANGED nops
MCDecNew == /\ Len(items) >= 1 /\ \E d \in DecIds : DecNew(d) /\ Rec(Op("DNEW", d, "", <<>>))
            /\ UNCHANGED nops
MCPeek == /\ G /\ \E d \in DecIds, rc \in {0, -1}, ty \in {TypeName(It(k, <<>>)) : k \in Kinds} \cup {""}, rem \in 0..Total :
                   Peek(d, rc, ty, rem) /\ Rec(Op("PEEK", d, "", <<>>))
          /\ nops' = nops + 1
(* the right pop function, or one wrong one *)
MCPop == /\ G /\ \E d \in DecIds : Usable(d) /\
               LET s == decs[d]
                   right == IF s.pos <= s.n THEN PopKind(items[s.pos]) ELSE "uint"
                   kinds == {right, IF right = "uint" THEN "text" ELSE "uint"} \ {""}
               IN \E kind \in kinds, rc \in {0, -1}, rem \in 0..Total :
                     \E val \in (IF s.pos <= s.n THEN {PopVal(items[s.pos])} ELSE {<<>>}) :
                        Pop(d, kind, rc, val, rem) /\ Rec(Op("POP", d, kind, <<>>))
         /\ nops' = nops + 1
MCSkipOne == /\ G /\ \E d \in DecIds, rc \in {0, -1}, rem \in 0..Total : SkipOne(d, rc, rem) /\ Rec(Op("SKIP1", d, "", <<>>))
             /\ nops' = nops + 1
(* only on well-formed or truncated items: what happens on a non-item is not specified *)
MCSkipWhole == /\ G /\ \E d \in DecIds, rc \in {0, -1}, rem \in 0..Total :
                        /\ Usable(d) /\ SkipItem(items, decs[d].pos, decs[d].n) >= 0
                        /\ SkipWhole(d, rc, rem) /\ Rec(Op("SKIP", d, "", <<>>))
               /\ nops' = nops + 1
MCRemaining == /\ G /\ \E d \in DecIds, rem \in 0..Total : Remaining(d, rem) /\ Rec(Op("REM", d, "", <<>>))
               /\ nops' = nops + 1 /\ UNCHANGED <<items, ends, decs>>
MCDecFree == /\ \E d \in DecIds : DecFree(d) /\ Rec(Op("DFREE", d, "", <<>>))
             /\ UNCHANGED nops

MCNext == MCWrite \/ MCWriteFloat \/ MCDecNew \/ MCPeek \/ MCPop \/ MCSkipOne \/ MCSkipWhole \/ MCRemaining \/ MCDecFree
MCSpec == MCInit /\ [][MCNext]_mcvars
View == <<items, ends, decs, nops>>

(* write_float: loss-free on every generated pattern (constant level: evaluated once per configuration) *)
ASSUME FloatLossless == \A b \in FloatSet : ~IsNaN64(b) => NarrowLossless(b)
(* a narrowed double is never longer than needed: the integer form is only chosen inside the int64 range, a    *)
(* double form only when no single is equal (no single widens to it)                                         *)
ASSUME FloatSmallest == \A b \in FloatSet : (~IsNaN64(b) /\ Narrow(b).k = "f64") =>
                    LET f == F64(b) IN
                    \/ f.e = 0                                                    \* below the smallest single subnormal
                    \/ f.e - 1023 > 127 \/ f.e - 1023 < -149                      \* outside the single range
                    \/ ~AllZero(SubSeq(f.m, IF f.e - 1023 >= -126 THEN 24 ELSE 24 - (-126 - (f.e - 1023)), 52))

Emit == (GenDepth > 0 /\ Len(hist) = GenDepth) => PrintT(<<"SCRIPT", ToJson([ops |-> hist])>>)

-----------------------------------------------------------------------------
(* regression tables.  Head widths at every boundary (RFC 8949 section 3 / 4.2.1). *)
ASSUME /\ CHead(0, W8(0)) = <<0>> /\ CHead(0, W8(23)) = <<23>> /\ CHead(0, W8(24)) = <<24, 24>> /\ CHead(0, W8(255)) = <<24, 255>>
       /\ CHead(0, W8(256)) = <<25, 1, 0>> /\ CHead(0, W8(65535)) = <<25, 255, 255>> /\ CHead(0, W8(65536)) = <<26, 0, 1, 0, 0>>
       /\ CHead(1, <<0, 0, 0, 0, 255, 255, 255, 255>>) = <<58, 255, 255, 255, 255>>
       /\ CHead(1, <<0, 0, 0, 1, 0, 0, 0, 0>>) = <<59, 0, 0, 0, 1, 0, 0, 0, 0>>
       /\ CHead(6, <<255, 255, 255, 255, 255, 255, 255, 255>>) = <<219, 255, 255, 255, 255, 255, 255, 255, 255>>
       /\ Enc(It("text", <<73, 69, 84, 70>>)) = <<100, 73, 69, 84, 70>>                  \* RFC 8949 appendix A "IETF"
       /\ Enc(It("bytes", <<1, 2, 3, 4>>)) = <<68, 1, 2, 3, 4>>
       /\ Enc(It("bool", <<0>>)) = <<244>> /\ Enc(It("bool", <<1>>)) = <<245>>
       /\ Enc(It("tag", W8(1))) = <<193>> /\ Enc(It("array", W8(25))) = <<152, 25>> /\ Enc(It("map", W8(2))) = <<162>>
       /\ DecAll(<<191, 99, 70, 117, 110, 245, 99, 65, 109, 116, 33, 255>>).ok                  \* the example of cbor.h
       /\ SkipBytes(<<191, 99, 70, 117, 110, 245, 99, 65, 109, 116, 33, 255>>, 1) = 13

(* doubles -> expected encoding.  The right-hand sides were produced outside TLA+ (IEEE arithmetic of another  *)
(* language: integer test by truncation, single test by a pack/unpack round trip), so the table checks the     *)
(* bit-field definitions of Narrow against real floating point.                                               *)
FloatTable == <<
\* @FLOAT-TABLE-BEGIN
  <<<<0, 0, 0, 0, 0, 0, 0, 0>>, <<0>>>>,
  <<<<128, 0, 0, 0, 0, 0, 0, 0>>, <<0>>>>,
  <<<<63, 240, 0, 0, 0, 0, 0, 0>>, <<1>>>>,
  <<<<191, 240, 0, 0, 0, 0, 0, 0>>, <<32>>>>,
  <<<<63, 248, 0, 0, 0, 0, 0, 0>>, <<250, 63, 192, 0, 0>>>>,
  <<<<191, 248, 0, 0, 0, 0, 0, 0>>, <<250, 191, 192, 0, 0>>>>,
  <<<<63, 185, 153, 153, 153, 153, 153, 154>>, <<251, 63, 185, 153, 153, 153, 153, 153, 154>>>>,
  <<<<63, 224, 0, 0, 0, 0, 0, 0>>, <<250, 63, 0, 0, 0>>>>,
  <<<<64, 55, 0, 0, 0, 0, 0, 0>>, <<23>>>>,
  <<<<64, 56, 0, 0, 0, 0, 0, 0>>, <<24, 24>>>>,
  <<<<64, 111, 224, 0, 0, 0, 0, 0>>, <<24, 255>>>>,
  <<<<64, 112, 0, 0, 0, 0, 0, 0>>, <<25, 1, 0>>>>,
  <<<<64, 239, 255, 224, 0, 0, 0, 0>>, <<25, 255, 255>>>>,
  <<<<64, 240, 0, 0, 0, 0, 0, 0>>, <<26, 0, 1, 0, 0>>>>,
  <<<<65, 239, 255, 255, 255, 224, 0, 0>>, <<26, 255, 255, 255, 255>>>>,
  <<<<65, 240, 0, 0, 0, 0, 0, 0>>, <<27, 0, 0, 0, 1, 0, 0, 0, 0>>>>,
  <<<<192, 56, 0, 0, 0, 0, 0, 0>>, <<55>>>>,
  <<<<192, 57, 0, 0, 0, 0, 0, 0>>, <<56, 24>>>>,
  <<<<192, 112, 0, 0, 0, 0, 0, 0>>, <<56, 255>>>>,
  <<<<192, 112, 16, 0, 0, 0, 0, 0>>, <<57, 1, 0>>>>,
  <<<<192, 240, 0, 0, 0, 0, 0, 0>>, <<57, 255, 255>>>>,
  <<<<192, 240, 0, 16, 0, 0, 0, 0>>, <<58, 0, 1, 0, 0>>>>,
  <<<<193, 240, 0, 0, 0, 0, 0, 0>>, <<58, 255, 255, 255, 255>>>>,
  <<<<193, 240, 0, 0, 0, 16, 0, 0>>, <<59, 0, 0, 0, 1, 0, 0, 0, 0>>>>,
  <<<<65, 112, 0, 0, 0, 0, 0, 0>>, <<26, 1, 0, 0, 0>>>>,
  <<<<65, 112, 0, 0, 16, 0, 0, 0>>, <<26, 1, 0, 0, 1>>>>,
  <<<<65, 112, 0, 0, 8, 0, 0, 0>>, <<251, 65, 112, 0, 0, 8, 0, 0, 0>>>>,
  <<<<67, 64, 0, 0, 0, 0, 0, 0>>, <<27, 0, 32, 0, 0, 0, 0, 0, 0>>>>,
  <<<<67, 64, 0, 0, 0, 0, 0, 1>>, <<27, 0, 32, 0, 0, 0, 0, 0, 2>>>>,
  <<<<67, 63, 255, 255, 255, 255, 255, 255>>, <<27, 0, 31, 255, 255, 255, 255, 255, 255>>>>,
  <<<<67, 208, 0, 0, 0, 0, 0, 0>>, <<27, 64, 0, 0, 0, 0, 0, 0, 0>>>>,
  <<<<67, 224, 0, 0, 0, 0, 0, 0>>, <<250, 95, 0, 0, 0>>>>,
  <<<<67, 223, 255, 255, 255, 255, 255, 255>>, <<27, 127, 255, 255, 255, 255, 255, 252, 0>>>>,
  <<<<67, 224, 0, 0, 0, 0, 0, 1>>, <<251, 67, 224, 0, 0, 0, 0, 0, 1>>>>,
  <<<<195, 224, 0, 0, 0, 0, 0, 0>>, <<59, 127, 255, 255, 255, 255, 255, 255, 255>>>>,
  <<<<195, 223, 255, 255, 255, 255, 255, 255>>, <<59, 127, 255, 255, 255, 255, 255, 251, 255>>>>,
  <<<<195, 224, 0, 0, 0, 0, 0, 1>>, <<251, 195, 224, 0, 0, 0, 0, 0, 1>>>>,
  <<<<67, 240, 0, 0, 0, 0, 0, 0>>, <<250, 95, 128, 0, 0>>>>,
  <<<<67, 239, 255, 255, 255, 255, 255, 255>>, <<251, 67, 239, 255, 255, 255, 255, 255, 255>>>>,
  <<<<195, 240, 0, 0, 0, 0, 0, 0>>, <<250, 223, 128, 0, 0>>>>,
  <<<<71, 239, 255, 255, 224, 0, 0, 0>>, <<250, 127, 127, 255, 255>>>>,
  <<<<199, 239, 255, 255, 224, 0, 0, 0>>, <<250, 255, 127, 255, 255>>>>,
  <<<<71, 239, 255, 255, 224, 0, 0, 1>>, <<251, 71, 239, 255, 255, 224, 0, 0, 1>>>>,
  <<<<71, 239, 255, 255, 223, 255, 255, 255>>, <<251, 71, 239, 255, 255, 223, 255, 255, 255>>>>,
  <<<<71, 240, 0, 0, 0, 0, 0, 0>>, <<251, 71, 240, 0, 0, 0, 0, 0, 0>>>>,
  <<<<71, 224, 0, 0, 0, 0, 0, 0>>, <<250, 127, 0, 0, 0>>>>,
  <<<<126, 55, 228, 60, 136, 0, 117, 156>>, <<251, 126, 55, 228, 60, 136, 0, 117, 156>>>>,
  <<<<254, 55, 228, 60, 136, 0, 117, 156>>, <<251, 254, 55, 228, 60, 136, 0, 117, 156>>>>,
  <<<<56, 16, 0, 0, 0, 0, 0, 0>>, <<250, 0, 128, 0, 0>>>>,
  <<<<56, 15, 255, 255, 255, 255, 255, 255>>, <<251, 56, 15, 255, 255, 255, 255, 255, 255>>>>,
  <<<<56, 16, 0, 0, 0, 0, 0, 1>>, <<251, 56, 16, 0, 0, 0, 0, 0, 1>>>>,
  <<<<56, 0, 0, 0, 0, 0, 0, 0>>, <<250, 0, 64, 0, 0>>>>,
  <<<<54, 160, 0, 0, 0, 0, 0, 0>>, <<250, 0, 0, 0, 1>>>>,
  <<<<54, 144, 0, 0, 0, 0, 0, 0>>, <<251, 54, 144, 0, 0, 0, 0, 0, 0>>>>,
  <<<<54, 184, 0, 0, 0, 0, 0, 0>>, <<250, 0, 0, 0, 3>>>>,
  <<<<54, 168, 0, 0, 0, 0, 0, 0>>, <<251, 54, 168, 0, 0, 0, 0, 0, 0>>>>,
  <<<<182, 160, 0, 0, 0, 0, 0, 0>>, <<250, 128, 0, 0, 1>>>>,
  <<<<56, 15, 255, 255, 192, 0, 0, 0>>, <<250, 0, 127, 255, 255>>>>,
  <<<<56, 15, 255, 255, 224, 0, 0, 0>>, <<251, 56, 15, 255, 255, 224, 0, 0, 0>>>>,
  <<<<0, 16, 0, 0, 0, 0, 0, 0>>, <<251, 0, 16, 0, 0, 0, 0, 0, 0>>>>,
  <<<<0, 15, 255, 255, 255, 255, 255, 255>>, <<251, 0, 15, 255, 255, 255, 255, 255, 255>>>>,
  <<<<0, 0, 0, 0, 0, 0, 0, 1>>, <<251, 0, 0, 0, 0, 0, 0, 0, 1>>>>,
  <<<<128, 0, 0, 0, 0, 0, 0, 1>>, <<251, 128, 0, 0, 0, 0, 0, 0, 1>>>>,
  <<<<127, 239, 255, 255, 255, 255, 255, 255>>, <<251, 127, 239, 255, 255, 255, 255, 255, 255>>>>,
  <<<<127, 240, 0, 0, 0, 0, 0, 0>>, <<250, 127, 128, 0, 0>>>>,
  <<<<255, 240, 0, 0, 0, 0, 0, 0>>, <<250, 255, 128, 0, 0>>>>,
  <<<<63, 211, 51, 51, 51, 51, 51, 51>>, <<251, 63, 211, 51, 51, 51, 51, 51, 51>>>>,
  <<<<67, 12, 107, 245, 38, 52, 0, 0>>, <<27, 0, 3, 141, 126, 164, 198, 128, 0>>>>,
  <<<<67, 65, 195, 121, 55, 224, 128, 0>>, <<27, 0, 35, 134, 242, 111, 193, 0, 0>>>>,
  <<<<65, 157, 111, 52, 84, 128, 0, 0>>, <<251, 65, 157, 111, 52, 84, 128, 0, 0>>>>,
  <<<<71, 239, 255, 255, 229, 77, 175, 248>>, <<251, 71, 239, 255, 255, 229, 77, 175, 248>>>>,
  <<<<63, 239, 255, 255, 224, 0, 0, 0>>, <<250, 63, 127, 255, 255>>>>,
  <<<<63, 240, 0, 0, 32, 0, 0, 0>>, <<250, 63, 128, 0, 1>>>>,
  <<<<63, 240, 0, 0, 0, 0, 0, 1>>, <<251, 63, 240, 0, 0, 0, 0, 0, 1>>>>,
  <<<<64, 4, 0, 0, 0, 0, 0, 0>>, <<250, 64, 32, 0, 0>>>>,
  <<<<54, 150, 214, 1, 173, 55, 106, 185>>, <<251, 54, 150, 214, 1, 173, 55, 106, 185>>>>
\* @FLOAT-TABLE-END
>>
ASSUME \A i \in 1..Len(FloatTable) : Enc(Narrow(FloatTable[i][1])) = FloatTable[i][2] /\ NarrowLossless(FloatTable[i][1])
=============================================================================
