SPECIFICATION TSpec
CONSTANTS DecIds = {1, 2, 3}
POSTCONDITION TraceAccepted
CHECK_DEADLOCK FALSE
