SPECIFICATION MCSpec
CONSTANTS DecIds = {1}
  Universe <- NoFloats
  FloatSet <- FloatPatterns
  MaxLen = 1
  MaxOps = 3
  GenDepth = 0
INVARIANTS RoundTrip DecInv
VIEW View
CHECK_DEADLOCK FALSE
