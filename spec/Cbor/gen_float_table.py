#!/usr/bin/env python3
"""Regenerates the FloatTable of CborMC.tla (between the @FLOAT-TABLE markers): boundary doubles and the encoding
write_float must produce, computed with this language's IEEE arithmetic (not with the bit-field definitions of the
spec): integer test by truncation, single-precision test by a pack/unpack round trip."""
import math
import os
import struct

HERE = os.path.dirname(os.path.abspath(__file__))
FLT_MAX = struct.unpack(">f", bytes.fromhex("7f7fffff"))[0]


def head(major, n):
    if n <= 23:
        return bytes([major * 32 + n])
    if n <= 0xFF:
        return bytes([major * 32 + 24, n])
    if n <= 0xFFFF:
        return bytes([major * 32 + 25]) + n.to_bytes(2, "big")
    if n <= 0xFFFFFFFF:
        return bytes([major * 32 + 26]) + n.to_bytes(4, "big")
    return bytes([major * 32 + 27]) + n.to_bytes(8, "big")


def expect(d):
    if math.isinf(d):
        return b"\xfa" + struct.pack(">f", d)
    if d == math.floor(d) and -2 ** 63 <= d < 2 ** 63:
        n = int(d)
        return head(0, n) if n >= 0 else head(1, -1 - n)
    try:
        f = struct.pack(">f", d)
        if struct.unpack(">f", f)[0] == d:
            return b"\xfa" + f
    except OverflowError:
        pass
    return b"\xfb" + struct.pack(">d", d)


def boundary():
    nx = math.nextafter
    v = [0.0, -0.0, 1.0, -1.0, 1.5, -1.5, 0.1, 0.5, 23.0, 24.0, 255.0, 256.0, 65535.0, 65536.0, 4294967295.0, 4294967296.0,
         -24.0, -25.0, -256.0, -257.0, -65536.0, -65537.0, -4294967296.0, -4294967297.0,
         2.0 ** 24, 2.0 ** 24 + 1, 2.0 ** 24 + 0.5, 2.0 ** 53, 2.0 ** 53 + 2, 2.0 ** 53 - 1, 2.0 ** 62, 2.0 ** 63, nx(2.0 ** 63, 0),
         nx(2.0 ** 63, math.inf), -2.0 ** 63, nx(-2.0 ** 63, 0), -2.0 ** 63 - 2048, 2.0 ** 64, 2.0 ** 64 - 2048, -2.0 ** 64,
         FLT_MAX, -FLT_MAX, nx(FLT_MAX, math.inf), nx(FLT_MAX, 0), 2.0 ** 128, 2.0 ** 127, 1e300, -1e300,
         2.0 ** -126, nx(2.0 ** -126, 0), nx(2.0 ** -126, 1), 2.0 ** -127, 2.0 ** -149, 2.0 ** -150, 3 * 2.0 ** -149, 3 * 2.0 ** -150,
         2.0 ** -148 + 2.0 ** -149, -(2.0 ** -149), 2.0 ** -126 - 2.0 ** -149, 2.0 ** -126 - 2.0 ** -150,
         2.2250738585072014e-308, nx(2.2250738585072014e-308, 0), 5e-324, -5e-324, 1.7976931348623157e308,
         math.inf, -math.inf, 0.3, 1e15, 1e16, 123456789.125, 3.4028234663852886e38, 3.4028235e38, 16777217.0, 0.999999940395355224609375,
         1.00000011920928955078125, 1.0000000000000002, 9007199254740993.0, 4611686018427387904.0, 9223372036854774784.0,
         -9223372036854774784.0, 2.5, 1e-45, 1.401298464324817e-45]
    return v


def tla(bs):
    return "<<" + ", ".join(str(b) for b in bs) + ">>"


def main():
    rows = []
    seen = set()
    for d in boundary():
        b8 = struct.pack(">d", d)
        if b8 in seen:
            continue
        seen.add(b8)
        rows.append("  <<%s, %s>>" % (tla(b8), tla(expect(d))))
    p = os.path.join(HERE, "CborMC.tla")
    text = open(p).read()
    a = text.index("\\* @FLOAT-TABLE-BEGIN") + len("\\* @FLOAT-TABLE-BEGIN\n")
    b = text.index("\\* @FLOAT-TABLE-END")
    text = text[:a] + ",\n".join(rows) + "\n" + text[b:]
    open(p, "w").write(text)
    print("rows", len(rows))


if __name__ == "__main__":
    main()
