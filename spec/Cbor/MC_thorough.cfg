SPECIFICATION MCSpec
CONSTANTS DecIds = {}
  Universe <- UniQuick
  FloatSet <- NoFloats
  MaxLen = 5
  MaxOps = 0
  GenDepth = 0
INVARIANTS RoundTrip SkipAgree EndsInv
VIEW View
CHECK_DEADLOCK FALSE
