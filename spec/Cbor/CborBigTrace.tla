---------------------------- MODULE CborBigTrace ----------------------------
EXTENDS CborBig, TraceCommon
VARIABLES l
Ev == TraceLog[l]
TReset == Ev.e = "Reset" /\ Ev.len = 0 /\ items' = <<>> /\ dec' = NoDec
TWriteBig == Ev.e = "WriteBig" /\ WriteBig(Ev.k, Ev.pat[1], Ev.pat[2], Ev.pat[3], Ev.head, Ev.bodyok, Ev.applen, Ev.len)
TEncReset == Ev.e = "EncReset" /\ EncReset(Ev.len)
TDecNew == Ev.e = "DecNew" /\ DecNew(Ev.len, Ev.rem)
TDecFree == Ev.e = "DecFree" /\ DecFree
TPopBig == Ev.e = "PopBig" /\ PopBig(Ev.rc, Ev.k, Ev.pat[1], Ev.pat[2], Ev.pat[3], Ev.patok, Ev.rem)
TEnd == Ev.e = "End" /\ Ev.live = 0 /\ UNCHANGED bvars
TNext == /\ l <= TraceLen /\ l' = l + 1
         /\ \/ TReset \/ TWriteBig \/ TEncReset \/ TDecNew \/ TDecFree \/ TPopBig \/ TEnd
TSpec == (l = 1 /\ Init) /\ [][TNext]_<<bvars, l>>
=============================================================================
