------------------------------- MODULE CborBig -------------------------------
(* C10 for items of megabytes on one encoder: what Cbor.tla says about byte and text strings, with the contents  *)
(* kept as arithmetic patterns instead of sequences (a string is [a, s, n]: byte i = (a + i * s) % 256,          *)
(* i = 0..n-1), so that an encoder that has grown to tens of megabytes, was reset and is used again - a history  *)
(* Cbor.tla cannot afford, its trace carries every encoded byte - is still judged call by call:                   *)
(*   WriteBig   appends the shortest head for n and then exactly the n pattern bytes; the total grows by that      *)
(*   EncReset   empties the encoder (and it stays usable: the next write starts from length 0)                    *)
(*   DecNew     a decoder over a copy of everything encoded so far                                                 *)
(*   PopBig     hands out the strings in order, by kind, length and content, the remaining length shrinking by    *)
(*              exactly the encoded length of each                                                                 *)
(* The adapter compares contents with the pattern (a projection, like the runs of BigBuf.tla): bodyok / patok.    *)
EXTENDS Naturals, Sequences

VARIABLES items,    \* what the encoder holds: sequence of [k |-> "bytes" | "text", a, s, n]
          dec       \* [live, n: items the decoder was made over, its, pos]

bvars == <<items, dec>>
NoDec == [live |-> FALSE, its |-> <<>>, pos |-> 1]

Major(k) == IF k = "bytes" THEN 2 ELSE 3
(* lengths stay below 2^31 here, so the 8-byte form never appears *)
HeadBytes(m, v) ==
    IF v < 24 THEN <<m * 32 + v>>
    ELSE IF v < 256 THEN <<m * 32 + 24, v>>
    ELSE IF v < 65536 THEN <<m * 32 + 25, v \div 256, v % 256>>
    ELSE <<m * 32 + 26, v \div 16777216, (v \div 65536) % 256, (v \div 256) % 256, v % 256>>
ItemLen(it) == Len(HeadBytes(Major(it.k), it.n)) + it.n
RECURSIVE Sum(_, _)
Sum(its, i) == IF i > Len(its) THEN 0 ELSE ItemLen(its[i]) + Sum(its, i + 1)
Total(its) == Sum(its, 1)
(* the same string: equal length, and the pattern parameters as far as the length shows them *)
SameStr(it, k, a, s, n) == /\ it.k = k /\ it.n = n
                           /\ (n >= 1 => it.a % 256 = a % 256)
                           /\ (n >= 2 => it.s % 256 = s % 256)

Init == items = <<>> /\ dec = NoDec

WriteBig(k, a, s, n, head, bodyok, applen, len) ==
    LET it == [k |-> k, a |-> a, s |-> s, n |-> n] IN
    /\ k \in {"bytes", "text"}
    /\ head = HeadBytes(Major(k), n) /\ bodyok = 1 /\ applen = ItemLen(it)
    /\ items' = Append(items, it) /\ len = Total(items')
    /\ UNCHANGED dec
EncReset(len) == len = 0 /\ items' = <<>> /\ UNCHANGED dec
DecNew(len, rem) == /\ ~dec.live /\ len = Total(items) /\ rem = len
                    /\ dec' = [live |-> TRUE, its |-> items, pos |-> 1] /\ UNCHANGED items
DecFree == dec.live /\ dec' = NoDec /\ UNCHANGED items
PopBig(rc, k, a, s, n, patok, rem) ==
    /\ dec.live /\ UNCHANGED items
    /\ IF dec.pos > Len(dec.its) THEN rc # 0 /\ UNCHANGED dec
       ELSE /\ rc = 0 /\ patok = 1 /\ SameStr(dec.its[dec.pos], k, a, s, n)
            /\ rem = Sum(dec.its, dec.pos + 1)
            /\ dec' = [dec EXCEPT !.pos = @ + 1]
=============================================================================
