-------------------------------- MODULE Cbor --------------------------------
(* C10: the CBOR encoder / decoder pair of aws-c-common (source/cbor.c over the vendored libcbor).          *)
(*                                                                                                          *)
(* CBOR is byte oriented, so everything here is a function on byte sequences (0..255) and bit sequences;    *)
(* no number is ever wider than a few bits.  A 64-bit argument is its 8-byte big-endian sequence `w8`.      *)
(*                                                                                                          *)
(*   item   = [k |-> kind, v |-> byte sequence]                                                             *)
(*            uint/negint/tag/array/map : v = w8 (the argument)        bytes/text : v = the content          *)
(*            bool : v = <<0>> or <<1>>     f32 : v = 4 bytes IEEE-754 single     f64 : v = 8 bytes double   *)
(*            null/undef/ibytes/itext/iarray/imap/break : v = <<>>                                           *)
(*   Enc(item)          the one well-formed encoding the property allows: shortest head (RFC 8949 4.2.1)     *)
(*   DecOne(bytes, off) an RFC 8949 reader of one element written independently of Enc (it accepts every    *)
(*                      head width); the model checker establishes DecAll(EncAll(items)) = items            *)
(*   Narrow(bits64)     the item aws_cbor_encoder_write_float must produce for a finite or infinite double: *)
(*                      an integer when the double is integer valued inside the int64 range, else a single   *)
(*                      when the single represents it exactly, else the double (cbor.h: "integer/negative/   *)
(*                      float (order with priority) when the conversion will not cause precision loss"),     *)
(*                      computed on the IEEE-754 fields - TLC never does floating point                     *)
(*   SkipItem           where a whole data item ends, on item sequences; SkipBytes the same on bytes         *)
(*                                                                                                          *)
(* The state machine: `items` is what has been written to the encoder, `ends[i]` the byte offset after item  *)
(* i, `decs[d]` a decoder over the first n items: next item `pos`, whether one element is held in the        *)
(* look-ahead cache, whether it has failed (errors are sticky).  Every action is a relation between the      *)
(* state, the arguments and the reported results of one public call.                                        *)
EXTENDS Integers, Sequences, FiniteSets

CONSTANTS DecIds
VARIABLES items, ends, decs
cvars == <<items, ends, decs>>

-----------------------------------------------------------------------------
(* bytes and bits (most significant first) *)
Zeros(n) == [i \in 1..n |-> 0]
Ones(n) == [i \in 1..n |-> 1]
AllZero(s) == \A i \in 1..Len(s) : s[i] = 0
Bits(bs) == [i \in 1..(8 * Len(bs)) |-> (bs[((i - 1) \div 8) + 1] \div (2 ^ (7 - ((i - 1) % 8)))) % 2]
Bytes(b) == [j \in 1..(Len(b) \div 8) |->
               128 * b[8 * j - 7] + 64 * b[8 * j - 6] + 32 * b[8 * j - 5] + 16 * b[8 * j - 4]
               + 8 * b[8 * j - 3] + 4 * b[8 * j - 2] + 2 * b[8 * j - 1] + b[8 * j]]
RECURSIVE BitsNatFrom(_, _, _)
BitsNatFrom(b, i, acc) == IF i > Len(b) THEN acc ELSE BitsNatFrom(b, i + 1, 2 * acc + b[i])
BitsNat(b) == BitsNatFrom(b, 1, 0)                                    \* at most 30 bits
NatBits(n, w) == [i \in 1..w |-> (n \div (2 ^ (w - i))) % 2]
W8(n) == [i \in 1..8 |-> IF i <= 5 THEN 0 ELSE (n \div (256 ^ (8 - i))) % 256]     \* n < 2^24
IsSmallW8(w) == \A i \in 1..5 : w[i] = 0
SmallNat(w) == 65536 * w[6] + 256 * w[7] + w[8]
BIG == 16777216                                                       \* stands for every count >= 2^24

It(k, v) == [k |-> k, v |-> v]
Kinds == {"uint", "negint", "bytes", "text", "array", "map", "tag", "bool", "null", "undef",
          "ibytes", "itext", "iarray", "imap", "break", "f32", "f64"}
IndefKinds == {"ibytes", "itext", "iarray", "imap"}

-----------------------------------------------------------------------------
(* encoding: the shortest head = strip the leading zero bytes of the argument down to width 0 (argument      *)
(* <= 23, inside the initial byte), 1, 2, 4 or 8                                                            *)
LeadZ(w) == IF AllZero(w) THEN 8 ELSE (CHOOSE i \in 1..8 : w[i] # 0 /\ \A j \in 1..(i - 1) : w[j] = 0) - 1
CHead(major, w) ==
    LET lz == LeadZ(w) IN
    IF lz >= 7 THEN (IF w[8] <= 23 THEN <<32 * major + w[8]>> ELSE <<32 * major + 24, w[8]>>)
    ELSE IF lz = 6 THEN <<32 * major + 25>> \o SubSeq(w, 7, 8)
    ELSE IF lz >= 4 THEN <<32 * major + 26>> \o SubSeq(w, 5, 8)
    ELSE <<32 * major + 27>> \o w
Major(k) == CASE k = "uint" -> 0 [] k = "negint" -> 1 [] k = "bytes" -> 2 [] k = "text" -> 3
              [] k = "array" -> 4 [] k = "map" -> 5 [] k = "tag" -> 6
EncHead(it) ==
    CASE it.k \in {"uint", "negint", "array", "map", "tag"} -> CHead(Major(it.k), it.v)
      [] it.k \in {"bytes", "text"} -> CHead(Major(it.k), W8(Len(it.v)))
      [] it.k = "bool" -> <<244 + it.v[1]>>
      [] it.k = "null" -> <<246>>
      [] it.k = "undef" -> <<247>>
      [] it.k = "ibytes" -> <<95>>
      [] it.k = "itext" -> <<127>>
      [] it.k = "iarray" -> <<159>>
      [] it.k = "imap" -> <<191>>
      [] it.k = "break" -> <<255>>
      [] it.k = "f32" -> <<250>>
      [] it.k = "f64" -> <<251>>
Enc(it) == IF it.k \in {"bytes", "text", "f32", "f64"} THEN EncHead(it) \o it.v ELSE EncHead(it)
EncLen(it) == IF it.k \in {"bytes", "text", "f32", "f64"} THEN Len(EncHead(it)) + Len(it.v) ELSE Len(EncHead(it))
RECURSIVE EncFrom(_, _)
EncFrom(its, i) == IF i > Len(its) THEN <<>> ELSE Enc(its[i]) \o EncFrom(its, i + 1)
EncAll(its) == EncFrom(its, 1)

-----------------------------------------------------------------------------
(* decoding one element at offset off (1-based) of b: [ok, it, next]; every argument width is accepted, the  *)
(* reserved additional-information values 28..30 and the simple values the library does not support are not  *)
DecFail == [ok |-> FALSE, it |-> It("null", <<>>), next |-> 0]
DecOne(b, off) ==
    IF off > Len(b) THEN DecFail
    ELSE
    LET n == Len(b)
        mj == b[off] \div 32
        ai == b[off] % 32
        aw == IF ai < 24 THEN 0 ELSE IF ai = 24 THEN 1 ELSE IF ai = 25 THEN 2 ELSE IF ai = 26 THEN 4 ELSE 8
        arg == IF ai < 24 THEN W8(ai) ELSE Zeros(8 - aw) \o SubSeq(b, off + 1, off + aw)
        Got(k, v, nx) == [ok |-> TRUE, it |-> It(k, v), next |-> nx]
    IN IF ai \in 28..30 THEN DecFail
       ELSE IF ai = 31
       THEN CASE mj = 2 -> Got("ibytes", <<>>, off + 1)
              [] mj = 3 -> Got("itext", <<>>, off + 1)
              [] mj = 4 -> Got("iarray", <<>>, off + 1)
              [] mj = 5 -> Got("imap", <<>>, off + 1)
              [] mj = 7 -> Got("break", <<>>, off + 1)
              [] OTHER -> DecFail
       ELSE IF off + aw > n THEN DecFail
       ELSE CASE mj = 0 -> Got("uint", arg, off + aw + 1)
              [] mj = 1 -> Got("negint", arg, off + aw + 1)
              [] mj \in {2, 3} ->
                    IF ~IsSmallW8(arg) \/ off + aw + SmallNat(arg) > n THEN DecFail
                    ELSE Got(IF mj = 2 THEN "bytes" ELSE "text",
                             SubSeq(b, off + aw + 1, off + aw + SmallNat(arg)), off + aw + SmallNat(arg) + 1)
              [] mj = 4 -> Got("array", arg, off + aw + 1)
              [] mj = 5 -> Got("map", arg, off + aw + 1)
              [] mj = 6 -> Got("tag", arg, off + aw + 1)
              [] mj = 7 ->
                    IF ai \in {20, 21} THEN Got("bool", <<ai - 20>>, off + 1)
                    ELSE IF ai = 22 THEN Got("null", <<>>, off + 1)
                    ELSE IF ai = 23 THEN Got("undef", <<>>, off + 1)
                    ELSE IF ai = 25 THEN Got("f16", SubSeq(b, off + 1, off + 2), off + 3)
                    ELSE IF ai = 26 THEN Got("f32", SubSeq(b, off + 1, off + 4), off + 5)
                    ELSE IF ai = 27 THEN Got("f64", SubSeq(b, off + 1, off + 8), off + 9)
                    ELSE DecFail
RECURSIVE DecFrom(_, _, _)
DecFrom(b, off, acc) ==
    IF off > Len(b) THEN [ok |-> TRUE, items |-> acc]
    ELSE LET r == DecOne(b, off) IN
         IF ~r.ok THEN [ok |-> FALSE, items |-> acc] ELSE DecFrom(b, r.next, Append(acc, r.it))
DecAll(b) == DecFrom(b, 1, <<>>)

-----------------------------------------------------------------------------
(* IEEE-754 on bit fields.  double = sign(1) exponent(11, bias 1023) mantissa(52); single = 1 / 8 (127) / 23 *)
F64(b8) == LET b == Bits(b8) IN [s |-> b[1], e |-> BitsNat(SubSeq(b, 2, 12)), m |-> SubSeq(b, 13, 64)]
F32(b4) == LET b == Bits(b4) IN [s |-> b[1], e |-> BitsNat(SubSeq(b, 2, 9)), m |-> SubSeq(b, 10, 32)]
IsNaN64(b8) == LET f == F64(b8) IN f.e = 2047 /\ ~AllZero(f.m)
IsNaN32(b4) == LET f == F32(b4) IN f.e = 255 /\ ~AllZero(f.m)
Pad64(bits) == Zeros(64 - Len(bits)) \o bits
(* bits - 1 for a non-zero magnitude *)
MinusOne(bits) == LET p == CHOOSE i \in 1..Len(bits) : bits[i] = 1 /\ \A j \in (i + 1)..Len(bits) : bits[j] = 0
                  IN [i \in 1..Len(bits) |-> IF i < p THEN bits[i] ELSE IF i = p THEN 0 ELSE 1]
(* the item write_float must emit for a double that is not NaN *)
Narrow(b8) ==
    LET f == F64(b8)
        E == f.e - 1023
        m == f.m
    IN IF f.e = 2047 THEN It("f32", Bytes(<<f.s>> \o Ones(8) \o Zeros(23)))                     \* +-infinity
       ELSE IF f.e = 0 /\ AllZero(m) THEN It("uint", Zeros(8))                                     \* +-0 = integer 0
       ELSE IF f.e = 0 THEN It("f64", b8)                                                          \* double subnormal
       ELSE IF E >= 0 /\ E <= 62 /\ (\A i \in (E + 1)..52 : m[i] = 0)                           \* integer, |x| < 2^63
            THEN LET mag == Pad64(<<1>> \o (IF E <= 52 THEN SubSeq(m, 1, E) ELSE m \o Zeros(E - 52)))
                 IN IF f.s = 0 THEN It("uint", Bytes(mag)) ELSE It("negint", Bytes(MinusOne(mag)))
       ELSE IF E = 63 /\ f.s = 1 /\ AllZero(m) THEN It("negint", <<127, 255, 255, 255, 255, 255, 255, 255>>)  \* -2^63
       ELSE IF E >= -126 /\ E <= 127 /\ AllZero(SubSeq(m, 24, 52))                                \* normal single
            THEN It("f32", Bytes(<<f.s>> \o NatBits(E + 127, 8) \o SubSeq(m, 1, 23)))
       ELSE IF E >= -149 /\ E <= -127 /\ AllZero(SubSeq(m, 24 - (-126 - E), 52))                  \* subnormal single
            THEN LET k == -126 - E IN It("f32", Bytes(<<f.s>> \o Zeros(8) \o Zeros(k - 1) \o <<1>> \o SubSeq(m, 1, 23 - k)))
       ELSE It("f64", b8)
(* the double a decoder reports for a single that is not NaN: exact widening *)
Widen(b4) ==
    LET f == F32(b4) IN
    IF f.e = 255 THEN Bytes(<<f.s>> \o Ones(11) \o Zeros(52))
    ELSE IF f.e = 0 /\ AllZero(f.m) THEN Bytes(<<f.s>> \o Zeros(63))
    ELSE IF f.e = 0
         THEN LET k == CHOOSE i \in 1..23 : f.m[i] = 1 /\ \A j \in 1..(i - 1) : f.m[j] = 0
              IN Bytes(<<f.s>> \o NatBits(1023 - 126 - k, 11) \o SubSeq(f.m, k + 1, 23) \o Zeros(29 + k))
    ELSE Bytes(<<f.s>> \o NatBits(f.e - 127 + 1023, 11) \o f.m \o Zeros(29))
(* the double an integer item stands for, when it has at most 53 significant bits (for the loss-free check) *)
IntAsDouble(it) ==
    LET u == Bits(it.v)
        mag == IF it.k = "uint" THEN u
               ELSE IF \A i \in 1..64 : u[i] = 1 THEN Zeros(64)        \* -1 - (2^64 - 1) = -2^64: not a model value
               ELSE LET p == CHOOSE i \in 1..64 : u[i] = 0 /\ \A j \in (i + 1)..64 : u[j] = 1      \* u + 1
                    IN [i \in 1..64 |-> IF i < p THEN u[i] ELSE IF i = p THEN 1 ELSE 0]
        s == IF it.k = "uint" THEN 0 ELSE 1
    IN IF AllZero(mag) THEN Zeros(8)
       ELSE LET p == CHOOSE i \in 1..64 : mag[i] = 1 /\ \A j \in 1..(i - 1) : mag[j] = 0
                rest == SubSeq(mag, p + 1, 64)                          \* 64 - p bits after the leading one
            IN Bytes(<<s>> \o NatBits(1023 + (64 - p), 11)
                     \o (IF Len(rest) >= 52 THEN SubSeq(rest, 1, 52) ELSE rest \o Zeros(52 - Len(rest))))
(* "loses nothing": reading the narrowed item back gives the same number (the sign of zero is not a number) *)
SameNumber(a8, b8) == a8 = b8 \/ (AllZero(SubSeq(a8, 2, 8)) /\ AllZero(SubSeq(b8, 2, 8)) /\ a8[1] % 128 = 0 /\ b8[1] % 128 = 0)
NarrowLossless(b8) ==
    LET it == Narrow(b8) IN
    CASE it.k = "f64" -> it.v = b8
      [] it.k = "f32" -> Widen(it.v) = b8
      [] OTHER -> SameNumber(IntAsDouble(it), b8)

-----------------------------------------------------------------------------
(* whole data items on item sequences.  Result: index of the first item after the data item that starts at   *)
(* i (items 1..n exist), 0 = the data runs out before the item is complete, -1 = not a data item (a break    *)
(* where an item is expected, a chunk of the wrong kind inside an indefinite string, an odd map).            *)
Count(w) == IF IsSmallW8(w) THEN SmallNat(w) ELSE BIG
RECURSIVE SkipItem(_, _, _), SkipN(_, _, _, _), SkipIndef(_, _, _, _, _)
SkipItem(its, i, n) ==
    IF i > n THEN 0
    ELSE LET it == its[i] IN
         CASE it.k = "tag" -> SkipItem(its, i + 1, n)
           [] it.k = "array" -> SkipN(its, i + 1, n, Count(it.v))
           [] it.k = "map" -> IF Count(it.v) = BIG THEN SkipN(its, i + 1, n, BIG) ELSE SkipN(its, i + 1, n, 2 * Count(it.v))
           [] it.k \in IndefKinds -> SkipIndef(its, i + 1, n, it.k, 0)
           [] it.k = "break" -> -1
           [] OTHER -> i + 1
SkipN(its, i, n, c) ==
    IF c = 0 THEN i
    ELSE LET j == SkipItem(its, i, n) IN IF j <= 0 THEN j ELSE SkipN(its, j, n, c - 1)
SkipIndef(its, i, n, k, cnt) ==
    IF i > n THEN 0
    ELSE IF its[i].k = "break" THEN (IF k = "imap" /\ cnt % 2 = 1 THEN -1 ELSE i + 1)
    ELSE IF k = "ibytes" /\ its[i].k # "bytes" THEN -1
    ELSE IF k = "itext" /\ its[i].k # "text" THEN -1
    ELSE LET j == SkipItem(its, i, n) IN IF j <= 0 THEN j ELSE SkipIndef(its, j, n, k, cnt + 1)

(* the same on bytes, through DecOne: offset after the data item starting at off; 0 = cannot *)
RECURSIVE SkipBytes(_, _), SkipBytesN(_, _, _), SkipBytesIndef(_, _)
SkipBytes(b, off) ==
    LET r == DecOne(b, off) IN
    IF ~r.ok THEN 0
    ELSE CASE r.it.k = "tag" -> SkipBytes(b, r.next)
           [] r.it.k = "array" -> SkipBytesN(b, r.next, Count(r.it.v))
           [] r.it.k = "map" -> IF Count(r.it.v) = BIG THEN SkipBytesN(b, r.next, BIG) ELSE SkipBytesN(b, r.next, 2 * Count(r.it.v))
           [] r.it.k \in IndefKinds -> SkipBytesIndef(b, r.next)
           [] OTHER -> r.next
SkipBytesN(b, off, c) ==
    IF c = 0 THEN off ELSE LET j == SkipBytes(b, off) IN IF j = 0 THEN 0 ELSE SkipBytesN(b, j, c - 1)
SkipBytesIndef(b, off) ==
    LET r == DecOne(b, off) IN
    IF ~r.ok THEN 0
    ELSE IF r.it.k = "break" THEN r.next
    ELSE LET j == SkipBytes(b, off) IN IF j = 0 THEN 0 ELSE SkipBytesIndef(b, j)

-----------------------------------------------------------------------------
(* what the decoder API reports *)
TypeName(it) ==
    CASE it.k = "uint" -> "AWS_CBOR_TYPE_UINT" [] it.k = "negint" -> "AWS_CBOR_TYPE_NEGINT"
      [] it.k \in {"f32", "f64"} -> "AWS_CBOR_TYPE_FLOAT" [] it.k = "bytes" -> "AWS_CBOR_TYPE_BYTES"
      [] it.k = "text" -> "AWS_CBOR_TYPE_TEXT" [] it.k = "array" -> "AWS_CBOR_TYPE_ARRAY_START"
      [] it.k = "map" -> "AWS_CBOR_TYPE_MAP_START" [] it.k = "tag" -> "AWS_CBOR_TYPE_TAG"
      [] it.k = "bool" -> "AWS_CBOR_TYPE_BOOL" [] it.k = "null" -> "AWS_CBOR_TYPE_NULL"
      [] it.k = "undef" -> "AWS_CBOR_TYPE_UNDEFINED" [] it.k = "break" -> "AWS_CBOR_TYPE_BREAK"
      [] it.k = "ibytes" -> "AWS_CBOR_TYPE_INDEF_BYTES_START" [] it.k = "itext" -> "AWS_CBOR_TYPE_INDEF_TEXT_START"
      [] it.k = "iarray" -> "AWS_CBOR_TYPE_INDEF_ARRAY_START" [] it.k = "imap" -> "AWS_CBOR_TYPE_INDEF_MAP_START"
(* which aws_cbor_decoder_pop_next_* function yields the item ("" = none: consume_next_single_element) *)
PopKind(it) == IF it.k \in {"f32", "f64"} THEN "float"
               ELSE IF it.k \in {"uint", "negint", "bytes", "text", "array", "map", "tag", "bool"} THEN it.k ELSE ""
PopKinds == {"uint", "negint", "float", "bytes", "text", "array", "map", "tag", "bool"}
(* the value the pop function reports: integers as 8 bytes, a float as the 8 bytes of the double *)
PopVal(it) == IF it.k = "f32" THEN Widen(it.v) ELSE it.v
ValMatches(it, val) ==
    IF it.k = "f32" THEN (IF IsNaN32(it.v) THEN IsNaN64(val) ELSE val = Widen(it.v))
    ELSE IF it.k = "f64" THEN (IF IsNaN64(it.v) THEN IsNaN64(val) ELSE val = it.v)
    ELSE val = it.v

-----------------------------------------------------------------------------
NoDec == [live |-> FALSE, n |-> 0, pos |-> 1, cached |-> FALSE, dead |-> FALSE]
Init == items = <<>> /\ ends = <<>> /\ decs = [d \in DecIds |-> NoDec]

End(k) == IF k = 0 THEN 0 ELSE ends[k]
Total == End(Len(items))
(* bytes left for a decoder that has consumed its first k items *)
Rem(d, k) == End(decs[d].n) - End(k)
Usable(d) == decs[d].live /\ ~decs[d].dead
(* a held element has been decoded, the header says decoding consumes the source; the property only fixes the *)
(* count once the element is handed out, so both readings are accepted while it is held                     *)
RemHeld(d) == {Rem(d, decs[d].pos - 1), Rem(d, decs[d].pos)}
SetDec(d, pos, cached, dead) == decs' = [decs EXCEPT ![d].pos = pos, ![d].cached = cached, ![d].dead = dead]

(* one aws_cbor_encoder_write_* call appended `out` *)
Write(it, out) ==
    /\ out = Enc(it)
    /\ items' = Append(items, it) /\ ends' = Append(ends, Total + Len(out))
    /\ UNCHANGED decs
(* write_single_float with a NaN: some single NaN must come out *)
WriteNaN32(out) ==
    /\ Len(out) = 5 /\ out[1] = 250 /\ IsNaN32(SubSeq(out, 2, 5))
    /\ items' = Append(items, It("f32", SubSeq(out, 2, 5))) /\ ends' = Append(ends, Total + 5)
    /\ UNCHANGED decs
(* aws_cbor_encoder_write_float *)
WriteFloat(b8, out) == IF IsNaN64(b8) THEN WriteNaN32(out) ELSE Write(Narrow(b8), out)
EncReset == /\ \A d \in DecIds : ~decs[d].live
            /\ items' = <<>> /\ ends' = <<>> /\ UNCHANGED decs
GetData(bytes) == bytes = EncAll(items) /\ UNCHANGED cvars

DecNew(d) == /\ ~decs[d].live
             /\ decs' = [decs EXCEPT ![d] = [live |-> TRUE, n |-> Len(items), pos |-> 1, cached |-> FALSE, dead |-> FALSE]]
             /\ UNCHANGED <<items, ends>>
DecFree(d) == decs[d].live /\ decs' = [decs EXCEPT ![d] = NoDec] /\ UNCHANGED <<items, ends>>

Peek(d, rc, ty, rem) ==
    /\ Usable(d) /\ UNCHANGED <<items, ends>>
    /\ LET s == decs[d] IN
       IF s.pos <= s.n
       THEN rc = 0 /\ ty = TypeName(items[s.pos]) /\ rem \in RemHeld(d) /\ SetDec(d, s.pos, TRUE, FALSE)
       ELSE rc # 0 /\ SetDec(d, s.pos, FALSE, TRUE)                   \* nothing left: an element out of no bytes is refused

Pop(d, kind, rc, val, rem) ==
    /\ Usable(d) /\ kind \in PopKinds /\ UNCHANGED <<items, ends>>
    /\ LET s == decs[d] IN
       IF s.pos > s.n THEN rc # 0 /\ SetDec(d, s.pos, FALSE, TRUE)
       ELSE IF PopKind(items[s.pos]) = kind
            THEN rc = 0 /\ ValMatches(items[s.pos], val) /\ rem = Rem(d, s.pos) /\ SetDec(d, s.pos + 1, FALSE, FALSE)
            ELSE rc # 0 /\ rem \in RemHeld(d) /\ SetDec(d, s.pos, TRUE, FALSE)     \* wrong type: refused, element kept

SkipOne(d, rc, rem) ==                                                  \* aws_cbor_decoder_consume_next_single_element
    /\ Usable(d) /\ UNCHANGED <<items, ends>>
    /\ LET s == decs[d] IN
       IF s.pos > s.n THEN rc # 0 /\ SetDec(d, s.pos, FALSE, TRUE)
       ELSE rc = 0 /\ rem = Rem(d, s.pos) /\ SetDec(d, s.pos + 1, FALSE, FALSE)

SkipWhole(d, rc, rem) ==                                                \* aws_cbor_decoder_consume_next_whole_data_item
    /\ Usable(d) /\ UNCHANGED <<items, ends>>
    /\ LET s == decs[d]
           j == SkipItem(items, s.pos, s.n)
       IN IF j > 0 THEN rc = 0 /\ rem = Rem(d, j - 1) /\ SetDec(d, j, FALSE, FALSE)    \* exactly that item
          ELSE IF j = 0 THEN rc # 0 /\ SetDec(d, s.pos, FALSE, TRUE)                  \* truncated: cannot succeed
          ELSE SetDec(d, s.pos, FALSE, TRUE)                                          \* not a data item: left open

Remaining(d, rem) ==
    /\ Usable(d) /\ UNCHANGED cvars
    /\ rem \in (IF decs[d].cached THEN RemHeld(d) ELSE {Rem(d, decs[d].pos - 1)})

-----------------------------------------------------------------------------
(* invariants of the definitions, checked by CborMC on every reachable item sequence *)
RoundTrip == DecAll(EncAll(items)) = [ok |-> TRUE, items |-> items]
EndsInv == /\ Len(ends) = Len(items)
           /\ \A i \in 1..Len(items) : ends[i] = Len(EncAll(SubSeq(items, 1, i)))
(* skipping on items and skipping on the encoded bytes agree, for every start *)
SkipAgree ==
    LET b == EncAll(items)
        n == Len(items)
    IN \A i \in 1..n :
          LET j == SkipItem(items, i, n) IN
          /\ j > 0 => SkipBytes(b, End(i - 1) + 1) = End(j - 1) + 1
          /\ j = 0 => SkipBytes(b, End(i - 1) + 1) = 0
DecInv == \A d \in DecIds : decs[d].live =>
             /\ decs[d].n <= Len(items) /\ decs[d].pos >= 1 /\ decs[d].pos <= decs[d].n + 1
             /\ decs[d].cached => decs[d].pos <= decs[d].n
=============================================================================
