SPECIFICATION MCSpec
CONSTANTS DecIds = {1, 2}
  Universe <- UniGen
  FloatSet <- FloatGen
  MaxLen = 12
  MaxOps = 40
  GenDepth = 36
INVARIANT Emit
CHECK_DEADLOCK FALSE
