------------------------------ MODULE CborTrace ------------------------------
(* Trace validation for C10.  Every call of the real encoder / decoder is one event; it must be the Cbor.tla   *)
(* action of the same name with exactly the logged arguments and results:                                     *)
(*   Write / WriteStr / WriteFloat  the bytes the call appended are Enc(item) - shortest head, narrowed        *)
(*                                  double - and the total length grows by exactly that                        *)
(*   GetData                        the whole encoded data is EncAll(items)                                    *)
(*   Peek / Pop / SkipOne           the decoder reports the written items in order, by type and value, and    *)
(*                                  the remaining length shrinks by exactly the encoded length of each        *)
(*   SkipWhole                      advances past exactly one data item (SkipItem), however deeply it nests    *)
(*   Remaining                      0 once everything has been handed out                                      *)
(* Error codes are not compared (only success / failure); the End event reports the allocator balance.        *)
EXTENDS Cbor, TraceCommon

VARIABLES l
Ev == TraceLog[l]
Chk(b) == b = TRUE

(* string payload from the script's pattern: byte i (from 0) = (start + i * step) mod 256 *)
Pattern(p) == [i \in 1..p[3] |-> (p[1] + (i - 1) * p[2]) % 256]

TReset == /\ Ev.e = "Reset" /\ Ev.len = 0
          /\ items' = <<>> /\ ends' = <<>> /\ decs' = [d \in DecIds |-> NoDec]
TWrite == /\ Ev.e = "Write"
          /\ IF Ev.k = "f32" /\ IsNaN32(Ev.v) THEN WriteNaN32(Ev.out) ELSE Write(It(Ev.k, Ev.v), Ev.out)
          /\ Chk(Ev.len = Total')
TWriteStr == /\ Ev.e = "WriteStr"
             /\ Write(It(Ev.k, Pattern(Ev.pat)), Ev.out)
             /\ Chk(Ev.len = Total')
TWriteFloat == /\ Ev.e = "WriteFloat"
               /\ WriteFloat(Ev.bits, Ev.out)
               /\ Chk(Ev.len = Total')
TEncReset == Ev.e = "EncReset" /\ Ev.len = 0 /\ EncReset
TGetData == Ev.e = "GetData" /\ Chk(Ev.len = Total) /\ GetData(Ev.bytes)
TDecNew == Ev.e = "DecNew" /\ DecNew(Ev.d) /\ Chk(Ev.len = Total /\ Ev.rem = Total)
TDecFree == Ev.e = "DecFree" /\ DecFree(Ev.d)
TPeek == Ev.e = "Peek" /\ Peek(Ev.d, Ev.rc, Ev.ty, Ev.rem)
TPop == Ev.e = "Pop" /\ Pop(Ev.d, Ev.kind, Ev.rc, Ev.val, Ev.rem)
TSkipOne == Ev.e = "SkipOne" /\ SkipOne(Ev.d, Ev.rc, Ev.rem)
TSkipWhole == Ev.e = "SkipWhole" /\ SkipWhole(Ev.d, Ev.rc, Ev.rem)
TRemaining == Ev.e = "Remaining" /\ Remaining(Ev.d, Ev.rem)
TEnd == Ev.e = "End" /\ Ev.live = 0 /\ UNCHANGED cvars

TNext == /\ l <= TraceLen /\ l' = l + 1
         /\ \/ TReset \/ TWrite \/ TWriteStr \/ TWriteFloat \/ TEncReset \/ TGetData \/ TDecNew \/ TDecFree
            \/ TPeek \/ TPop \/ TSkipOne \/ TSkipWhole \/ TRemaining \/ TEnd
TInit == l = 1 /\ Init
TSpec == TInit /\ [][TNext]_<<cvars, l>>
=============================================================================
