#!/bin/bash
# usage: tools/mutest.sh <patch.diff> <ID> [tier]   -- apply a patch to /repo, run the check, always undo.
set -u
patch=$(readlink -f "$1"); id=$2; tier=${3:-quick}
cd /repo || exit 3
if ! git diff --quiet; then echo "repo dirty, refusing"; exit 3; fi
git apply "$patch" || { echo "patch does not apply"; exit 3; }
trap 'git -C /repo checkout -- . ' EXIT
cd /verif && VERIF_EVIDENCE_SUPPRESS=1 ./check "$id" --tier "$tier"; rc=$?
echo "mutest rc=$rc"
exit $rc
