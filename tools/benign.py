#!/usr/bin/env python3
"""Runs the property-preserving changes of mutants/benign.py: every listed check must exit 0 on them."""
import json, os, subprocess, sys, time
V = os.path.dirname(os.path.dirname(os.path.abspath(__file__)))
REPO = os.environ.get("VERIF_REPO", "/repo")
sys.path.insert(0, V)
from mutants.benign import BENIGN
def sh(c): return subprocess.run(c, shell=True, stdout=subprocess.PIPE, stderr=subprocess.STDOUT, text=True)
sel = sys.argv[1:]
resp = os.path.join(V, "mutants", "benign_results.json")
res = json.load(open(resp)) if os.path.exists(resp) else {}
for name, pids, path, old, new in BENIGN:
    if sel and name not in sel and not (set(sel) & set(pids)):
        continue
    if sh("git -C %s diff --quiet" % REPO).returncode: print("dirty"); sys.exit(3)
    fp = os.path.join(REPO, path); src = open(fp).read()
    if old not in src: print("BENIGN %s: pattern missing" % name); res[name] = {"status": "pattern-missing"}; continue
    open(fp, "w").write(src.replace(old, new, 1))
    out = {}
    try:
        for pid in pids:
            if sel and pid not in sel and name not in sel: continue
            if not os.path.exists(os.path.join(V, "checks", pid.lower() + ".py")): out[pid] = "no-check"; continue
            t0 = time.time(); r = sh("cd %s && VERIF_EVIDENCE_SUPPRESS=1 timeout 3000 ./check %s --tier quick" % (V, pid))
            out[pid] = "silent" if r.returncode == 0 else ("ALARM rc=%d %s" % (r.returncode, [l for l in r.stdout.splitlines() if l.strip().startswith("->") or "CHECK-ERROR" in l][:1]))
            print("BENIGN %-32s %s %s (%.0fs)" % (name, pid, out[pid][:200], time.time() - t0), flush=True)
    finally:
        sh("git -C %s checkout -- ." % REPO)
    res[name] = {"file": path, "change": "%s => %s" % (old.strip()[:70], new.strip()[:70]), "checks": out}
    json.dump(res, open(resp, "w"), indent=1)
