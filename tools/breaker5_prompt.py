#!/usr/bin/env python3
"""Prints the prompt for an independent 'breaker' sub-agent for one property (only the property text is shared)."""
import json, sys
pid = sys.argv[1]
rec = [json.loads(l) for l in open('/verif/properties.jsonl') if json.loads(l)['id'] == pid][0]
wt = "/tmp/seed5-%s" % pid.lower()
out = "/tmp/seed5-%s-out" % pid.lower()
import glob, os
prev = []
for f in sorted(glob.glob('/verif/seeded/%s-*/meta.json' % pid)):
    m = json.load(open(f))
    prev.append("  - " + m.get("summary", "").strip()[:400])
prev_txt = "\n".join(prev)
print(f"""You are a software engineer helping to evaluate a verification effort for the C library awslabs/aws-c-common. Your job: write TWO different, realistic source changes ("seeded defects") that each BREAK the property below while the library still compiles and the existing test suite still passes. You work ONLY in your own scratch git worktree; do not read or write anything under /verif and do not modify /repo itself.

PROPERTY {pid}: {rec['title']}
Statement: {rec['statement']}
It must hold: {rec['quantifier']['text']}
Relevant source files: {', '.join(rec['anchors']['files'])}

Setup (do exactly this):
  git -C /repo worktree add --detach {wt} HEAD
  cmake -G Ninja -S {wt} -B {wt}/_b -DCMAKE_BUILD_TYPE=RelWithDebInfo -DCMAKE_C_FLAGS=-Wno-error >/dev/null && ninja -C {wt}/_b
  ctest --test-dir {wt}/_b -j4 --timeout 900     (451 tests must pass before you change anything; the machine is busy, use -j4; a timing-related test may flake under load - re-run it alone before concluding)
  mkdir -p {out}

ALREADY TRIED (four earlier rounds; every one of these changes is detected now - do NOT repeat them or close variants of them, pick different functions, different mechanisms, different corners):
{prev_txt}

IMPORTANT CONTEXT: four earlier rounds of seeded defects for this property were (almost) ALL detected by the verification machinery under evaluation. That machinery drives the real library with (a) operation sequences generated from a formal model plus seeded random sequences biased to boundary values (sizes 0/1/exact-fit/one-short/around internal constants, duplicates, empty containers), typically 5-80 operations on a few objects, and (b) for concurrent code, a controlled scheduler exploring interleavings at lock / condition-variable / atomic / allocation points plus a data-race detector; it compares every observable result and state after every call against a reference specification. It also covers, by now: sizes from 0 to tens of megabytes and requests / counts up to SIZE_MAX, objects of gigabytes (address space only), long histories on one object (a thousand calls), the same API used from 2-3 threads at once on separate objects (with a data-race detector), several configurations of every callback / comparator / destructor / allocator option (including NULL keys and values, 0/1-style comparators, allocators without realloc or calloc), compile-time-constant operands in a release build, deep call stacks, stale thread-local error codes, failing writers, quiescent moments under a virtual clock; and since the last round also: process locales other than "C" (8-bit character sets, decimal comma, non-English month names), other process time zones, sizes and offsets beyond 4 GiB (address space only) and counts whose byte size wraps around size_t, files above 128 MiB, registers with dirty upper halves, allocators that lack optional entry points, callbacks that ignore the result of nested calls, keys stored inside their values, records that embed their own handles and alias output buffers, values moved between containers, bursts of thousands of queued items, references acquired and released concurrently, blocks allocated outside a wrapper and passed through it, refused operations followed by the real one. Off-by-one slips on a single hot path, dropped locks and single wrong comparisons are caught. To be useful now, your changes must be HARDER: they should need a rarer combination - e.g. an interaction of two features or two objects, a long or very specific history (state that only arises after a particular earlier sequence, such as growth followed by shrink followed by reuse), a configuration corner (unusual option values, static vs dynamic storage, NULL/empty keys, maximum values), a second-order effect of a helper used by the anchored code, an error path taken only after partial progress, or a timing window between two specific steps - while still being something a maintainer could plausibly write.

What makes a good change: it looks like something a maintainer could plausibly commit (a refactoring slip, an off-by-one, a dropped or reordered step, a wrong comparison, a missing update on one path, two sites that each look fine alone), it is small (a few lines, one or two sites), and it needs something SPECIFIC to manifest: a particular interleaving of threads, a fault or boundary at a particular point, a multi-step sequence of operations, an unusual input, a particular size or alignment. Changes that ordinary use exposes at once (every call crashes, every result wrong) are NOT wanted - the existing tests must still pass. Do not add new API, do not touch tests, do not touch files under verification/ or tests/. The two changes must differ in mechanism (different functions or different kinds of mistake).

For each change i in (1, 2) produce in {out}/:
  patch{{i}}.diff      unified diff against the worktree HEAD (git -C {wt} diff > ...), applying cleanly with `git apply`
  demo{{i}}.c          a small standalone C program (links against {wt}/_b/libaws-c-common.a; may use pthreads, may loop many times to hit a race, should finish in < 60 s) that exits 0 on the UNCHANGED library and exits non-zero (or crashes) with the change applied, printing what went wrong; put the compile command in its first comment line, e.g.
                       // cc -I{wt}/include -I{wt}/_b/generated/include demo1.c {wt}/_b/libaws-c-common.a -lpthread -ldl -lm -o demo1
  meta{{i}}.json       {{"property": "{pid}", "summary": "...one sentence...", "needs": "what is needed for it to manifest", "files": ["source/..."], "tests_pass": true}}
Procedure for each change: apply it in the worktree, rebuild (ninja -C {wt}/_b), run the FULL test suite (ctest --test-dir {wt}/_b -j4 --timeout 900) and confirm all 451 pass (if a test fails, the change is not acceptable: pick another), build and run the demo against the changed library (must fail) then `git -C {wt} checkout -- .`, rebuild, run the demo against the unchanged library (must pass). 

When both are done: leave {out} in place, remove the worktree and its build output (git -C /repo worktree remove --force {wt}), and reply with a short report: for each change the summary, what it needs to manifest, and the exact demo output with and without the change.""")
