#!/usr/bin/env python3
"""tools/confirm_seed.py <PID> <outdir> <i> [--check-only]
Confirms one independently written seeded change myself and records it under /verif/seeded/<PID>-<i>/:
  1. scratch worktree /tmp/confirm-<pid> at /repo HEAD, baseline build (RelWithDebInfo), demo must exit 0
  2. apply patch, rebuild, the repository's full test suite must pass, demo must exit non-zero
  3. run ./check <PID> (quick) against the patched worktree (VERIF_REPO=...), evidence suppressed
  4. write patch.diff, demo.c, meta.json (what it breaks, what it needs, what was run, detected or not)
The worktree is removed at the end. Nothing is ever applied to /repo."""
import json
import os
import re
import shutil
import subprocess
import sys
import time

V = os.path.dirname(os.path.dirname(os.path.abspath(__file__)))


def sh(cmd, timeout=3600, env=None):
    e = dict(os.environ)
    if env:
        e.update(env)
    try:
        p = subprocess.run(cmd, shell=True, stdout=subprocess.PIPE, stderr=subprocess.STDOUT, text=True, timeout=timeout, env=e)
        return p.returncode, p.stdout
    except subprocess.TimeoutExpired as x:
        return -9, (x.stdout or "") if isinstance(x.stdout, str) else ""


def main():
    pid, outdir, i = sys.argv[1], sys.argv[2], sys.argv[3]
    label = sys.argv[4] if len(sys.argv) > 4 else ""
    wt = "/tmp/confirm-%s" % pid.lower()
    dest = os.path.join(V, "seeded", "%s-%s%s" % (pid, label, i))
    patch = os.path.join(outdir, "patch%s.diff" % i)
    demo = os.path.join(outdir, "demo%s.c" % i)
    meta_in = os.path.join(outdir, "meta%s.json" % i)
    meta = json.load(open(meta_in)) if os.path.exists(meta_in) else {}
    ran = []
    sh("git -C /repo worktree remove --force %s" % wt)
    rc, out = sh("git -C /repo worktree add --detach %s HEAD" % wt)
    if rc:
        print(out)
        return 3
    try:
        rc, out = sh("cmake -G Ninja -S %s -B %s/_b -DCMAKE_BUILD_TYPE=RelWithDebInfo -DCMAKE_C_FLAGS=-Wno-error >/dev/null && ninja -C %s/_b" % (wt, wt, wt))
        if rc:
            print("baseline build failed\n" + out[-2000:])
            return 3
        src = open(demo).read()
        src2 = re.sub(r"/tmp/seed[2345]?-c\d\d", wt, src)
        dpath = os.path.join(wt, "_b", "demo.c")
        open(dpath, "w").write(src2)
        cc = "cc -O1 -g -I%s/include -I%s/_b/generated/include %s %s/_b/libaws-c-common.a -lpthread -ldl -lm -o %s/_b/demo" % (wt, wt, dpath, wt, wt)
        rc, out = sh(cc)
        if rc:
            print("demo does not compile\n" + out[-2000:])
            return 3
        rc_clean, out_clean = sh("%s/_b/demo" % wt, timeout=300)
        ran.append({"cmd": "demo on unchanged library", "rc": rc_clean, "out": out_clean[-400:]})
        rc, out = sh("git -C %s apply %s" % (wt, patch))
        if rc:
            print("patch does not apply\n" + out)
            return 3
        rc, out = sh("ninja -C %s/_b" % wt)
        if rc:
            print("patched build failed\n" + out[-2000:])
            return 3
        rc_t, out_t = sh("ctest --test-dir %s/_b -j6 --timeout 900" % wt)
        m = re.search(r"(\d+)% tests passed, (\d+) tests failed out of (\d+)", out_t)
        failed = [l.strip() for l in out_t.splitlines() if "***Failed" in l or "***Timeout" in l or "***Exception" in l]
        if failed:   # re-run failures alone (timing tests flake under load)
            names = " ".join("-R '^%s$'" % re.sub(r".*Test +#\d+: (\S+) .*", r"\1", f) for f in failed[:5])
            still = []
            for f in failed[:5]:
                nm = re.sub(r".*Test +#\d+: (\S+) .*", r"\1", f)
                r2, o2 = sh("ctest --test-dir %s/_b -R '^%s$' --timeout 900" % (wt, nm))
                if r2:
                    still.append(nm)
            failed = still
        ran.append({"cmd": "ctest (full suite) on patched library", "summary": m.group(0) if m else "?", "still_failing_alone": failed})
        rc, out = sh(cc)
        rc_mut, out_mut = sh("%s/_b/demo" % wt, timeout=300)
        ran.append({"cmd": "demo on patched library", "rc": rc_mut, "out": out_mut[-400:]})
        t0 = time.time()
        rc_chk, out_chk = sh("cd %s && ./check %s --tier quick" % (V, pid), timeout=3000,
                             env={"VERIF_REPO": wt, "VERIF_EVIDENCE_SUPPRESS": "1"})
        viol = [l for l in out_chk.splitlines() if l.startswith("VIOLATION")]
        detail = [l.strip() for l in out_chk.splitlines() if l.strip().startswith("->")]
        ran.append({"cmd": "VERIF_REPO=<patched worktree> ./check %s --tier quick" % pid, "rc": rc_chk, "wall_s": round(time.time() - t0),
                    "violations": len(viol), "first": (detail[0][:400] if detail else out_chk[-400:] if rc_chk not in (0, 1) else "")})
        valid = (rc_clean == 0) and (rc_mut != 0) and not failed
        os.makedirs(dest, exist_ok=True)
        shutil.copy(patch, os.path.join(dest, "patch.diff"))
        shutil.copy(demo, os.path.join(dest, "demo.c"))
        meta_out = {"property": pid, "summary": meta.get("summary", ""), "needs": meta.get("needs", ""),
                    "files": meta.get("files", []), "confirmed_valid": valid,
                    "detected_by_quick_check": rc_chk == 1 and bool(viol), "what_i_ran": ran,
                    "repo_head": sh("git -C /repo rev-parse --short HEAD")[1].strip()}
        json.dump(meta_out, open(os.path.join(dest, "meta.json"), "w"), indent=1)
        print("SEED %s-%s%s valid=%s detected=%s (check rc=%s, %ss)" % (pid, label, i, valid, meta_out["detected_by_quick_check"], rc_chk, ran[-1]["wall_s"]))
        return 0
    finally:
        sh("git -C /repo worktree remove --force %s" % wt)
        shutil.rmtree(wt, ignore_errors=True)


if __name__ == "__main__":
    sys.exit(main())
