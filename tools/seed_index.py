#!/usr/bin/env python3
"""Writes seeded/INDEX.md from seeded/*/meta.json (which check caught which independently written change)."""
import glob, json, os
V = os.path.dirname(os.path.dirname(os.path.abspath(__file__)))
rows = []
for f in sorted(glob.glob(os.path.join(V, "seeded", "*", "meta.json"))):
    m = json.load(open(f))
    d = os.path.basename(os.path.dirname(f))
    chk = [r for r in m["what_i_ran"] if "./check" in r["cmd"]][-1]
    rows.append((d, m["property"], m["summary"].replace("|", "/")[:230], m["needs"].replace("|", "/")[:200], "yes" if m["confirmed_valid"] else "NO",
                 "caught" if m["detected_by_quick_check"] else "MISSED", (m.get("strengthened") or "")))
with open(os.path.join(V, "seeded", "INDEX.md"), "w") as f:
    f.write("# Independently written breaking changes (one sub-agent per property, given only the property text)\n\n"
            "Each was confirmed by tools/confirm_seed.py in a scratch worktree: demo passes on the unchanged library, full test suite passes with the "
            "patch, demo fails with the patch; then `VERIF_REPO=<patched worktree> ./check <ID> --tier quick`.\n\n"
            "| id | property | change | needs | valid | quick check | note |\n|---|---|---|---|---|---|---|\n")
    for r in rows:
        f.write("| %s | %s | %s | %s | %s | %s | %s |\n" % r)
print(len(rows), "seeds;", sum(1 for r in rows if r[5] == "caught"), "caught")
