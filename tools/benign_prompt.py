#!/usr/bin/env python3
"""Prints the prompt for an independent 'refactorer' sub-agent for one property: it writes realistic source changes that
PRESERVE the property (only the property text is shared).  Every check must stay silent on them (no false alarms)."""
import json, sys
pid = sys.argv[1]
rec = [json.loads(l) for l in open('/verif/properties.jsonl') if json.loads(l)['id'] == pid][0]
wt = "/tmp/ben-%s" % pid.lower()
out = "/tmp/ben-%s-out" % pid.lower()
print(f"""You are a maintainer of the C library awslabs/aws-c-common. Your job: write THREE different, realistic source changes that each change how the code anchored below WORKS INTERNALLY (or change behaviour the property below leaves open) while the property below STILL HOLDS for every input / schedule / history it quantifies over, the library still compiles and the existing test suite still passes. They are used to test that a verification tool does not raise false alarms on legitimate changes. You work ONLY in your own scratch git worktree; do not read or write anything under /verif and do not modify /repo itself.

PROPERTY {pid}: {rec['title']}
Statement: {rec['statement']}
It must hold: {rec['quantifier']['text']}
Relevant source files: {', '.join(rec['anchors']['files'])}

Setup (do exactly this):
  git -C /repo worktree add --detach {wt} HEAD
  cmake -G Ninja -S {wt} -B {wt}/_b -DCMAKE_BUILD_TYPE=RelWithDebInfo -DCMAKE_C_FLAGS=-Wno-error >/dev/null && ninja -C {wt}/_b
  mkdir -p {out}

What makes a good change: something a maintainer would plausibly commit and a reviewer would accept as "no functional regression with respect to the documented contract": a performance optimisation (fast path, batching, different growth or sizing policy, different initial capacity, caching a value), a restructuring (loop rewritten, helper extracted or inlined, early exit added, two steps reordered where order does not matter to callers, a lock held slightly longer or taken a little earlier, notify moved inside/outside a critical section where both are correct), a different but equally valid choice where the contract leaves a choice open (which of several equal elements comes first, iteration order of an unordered container, exact capacity after growth, which thread performs an internal step, tie-breaking, undocumented error code on a path whose code is not documented in the header, extra zeroing, extra validation that cannot fail for valid inputs), or stricter internal checking. Each change should touch real logic (NOT comments, renames, formatting or logging only), be 3-40 lines, and the three should differ in kind. Think hard about whether the property as stated (read it literally, and read the public header documentation of the functions involved) still holds - if you are not sure, pick another change. Do not add new public API, do not touch tests, do not touch files under verification/ or tests/.

For each change i in (1, 2, 3) produce in {out}/:
  patch{{i}}.diff      unified diff against the worktree HEAD (git -C {wt} diff > ...), applying cleanly with `git apply`
  meta{{i}}.json       {{"property": "{pid}", "summary": "...one or two sentences: what changed...", "why_preserving": "why the property and the documented contract still hold", "files": ["source/..."], "tests_pass": true}}
Procedure for each change: apply it in the worktree, rebuild (ninja -C {wt}/_b), run the FULL test suite (ctest --test-dir {wt}/_b -j4 --timeout 900) and confirm all 451 pass (the machine is busy; a timing-related test may flake under load - re-run it alone before concluding; if a test really fails, pick another change), save the diff, then `git -C {wt} checkout -- .` before the next one.

When all are done: leave {out} in place, remove the worktree and its build output (git -C /repo worktree remove --force {wt}), and reply with a short report: for each change the summary and why it preserves the property.""")
