#!/usr/bin/env python3
"""MANIFEST.setup_cmd: pre-build the instrumented library and every harness for the current tree (offline)."""
import importlib, os, sys
V = os.path.dirname(os.path.dirname(os.path.abspath(__file__)))
sys.path.insert(0, os.path.join(V, "lib")); sys.path.insert(0, V)
from vlib import build
from vlib.ctx import Ctx
from checks import registry as R
build.ensure_lib()
for pid in R.CLAIMED:
    mod = importlib.import_module("checks." + pid.lower())
    if hasattr(mod, "prepare"):
        mod.prepare(None)
print("setup ok")
