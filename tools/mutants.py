#!/usr/bin/env python3
"""Own mutation table: (id, property, file, old text, new text). `tools/mutants.py run [PID|name...]` applies each
mutant to /repo (working tree only), runs the quick check with evidence writing suppressed, restores the tree and
records killed/survived in mutants/results.json. Never commits anything in /repo."""
import json, os, subprocess, sys, time
V = os.path.dirname(os.path.dirname(os.path.abspath(__file__)))
REPO = os.environ.get("VERIF_REPO", "/repo")
sys.path.insert(0, V)
from mutants.table import MUTANTS

def sh(cmd, **kw):
    return subprocess.run(cmd, shell=True, stdout=subprocess.PIPE, stderr=subprocess.STDOUT, text=True, **kw)

def main():
    sel = sys.argv[2:] if len(sys.argv) > 2 else None
    resp = os.path.join(V, "mutants", "results.json")
    results = json.load(open(resp)) if os.path.exists(resp) else {}
    for m in MUTANTS:
        name, pid, path, old, new = m[:5]
        if sel and pid not in sel and name not in sel:
            continue
        if sh("git -C %s diff --quiet" % REPO).returncode != 0:
            print("repo dirty; abort"); return 3
        fp = os.path.join(REPO, path)
        src = open(fp).read()
        if src.count(old) < 1:
            print("MUTANT %s: pattern not found" % name); results[name] = {"property": pid, "status": "pattern-missing"}; continue
        open(fp, "w").write(src.replace(old, new, 1))
        t0 = time.time()
        try:
            r = sh("cd %s && VERIF_EVIDENCE_SUPPRESS=1 timeout 3000 ./check %s --tier quick" % (V, pid))
        finally:
            sh("git -C %s checkout -- ." % REPO)
        viol = [l for l in r.stdout.splitlines() if l.startswith("VIOLATION")]
        status = "killed" if (r.returncode == 1 and viol) else ("survived" if r.returncode == 0 else "error rc=%d" % r.returncode)
        detail = [l for l in r.stdout.splitlines() if l.strip().startswith("->")][:1]
        results[name] = {"property": pid, "status": status, "wall_s": round(time.time() - t0, 1), "file": path,
                         "change": "%s  =>  %s" % (old.strip()[:80], new.strip()[:80]), "detail": (detail[0][:300] if detail else r.stdout[-300:] if status.startswith("error") else "")}
        print("MUTANT %-28s %-4s %s (%.0fs)" % (name, pid, status, time.time() - t0), flush=True)
        try:
            import fcntl
            with open(resp + ".lock", "w") as lk:
                fcntl.flock(lk, fcntl.LOCK_EX)
                cur = json.load(open(resp)) if os.path.exists(resp) else {}
                cur[name] = results[name]
                json.dump(cur, open(resp, "w"), indent=1)
        except Exception:
            json.dump(results, open(resp, "w"), indent=1)
    return 0

if __name__ == "__main__":
    sys.exit(main())
