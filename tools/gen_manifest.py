#!/usr/bin/env python3
import json, os, sys
sys.path.insert(0, os.path.join(os.path.dirname(os.path.abspath(__file__)), ".."))
from checks import registry as R
V = os.path.dirname(os.path.dirname(os.path.abspath(__file__)))
hook_commits = [l.strip() for l in open(os.path.join(V, "hook_commits.txt")) if l.strip()]
checks = []
for pid in R.ALL:
    if pid not in R.CLAIMED:
        continue
    c = R.CLAIMED[pid]
    checks.append({
        "property_id": pid,
        "quick_cmd": "./check %s --tier quick" % pid,
        "thorough_cmd": "./check %s --tier thorough" % pid,
        "evidence_file": "/verif/evidence/%s.json" % pid,
        "replay_cmd_template": "./check %s --replay {path}" % pid,
        "engine": "tlc",
        "level_claimed": {"category": c["level"], "text": c["text"], "design_ref": c.get("design_ref", "DESIGN.md section 5")},
        "level_note": c["note"],
        "technique": c["technique"],
    })
na = []
for pid in R.ALL:
    if pid not in R.CLAIMED:
        na.append({"property_id": pid, "reason": R.NOT_APPLICABLE.get(pid, R.NOT_YET)})
m = {
    "version": 1,
    "setup_cmd": "python3 tools/setup.py",
    "hooks": {
        "guard": "AWS_C_COMMON_VERIF",
        "enable": "lib/vlib/build.py configures /repo with cmake into /verif/.build/<tree-hash>/ using clang, ASan and -DAWS_C_COMMON_VERIF in CMAKE_C_FLAGS",
        "baseline_off_cmd": "cmake --build /repo/_build && ctest --test-dir /repo/_build -j8 --timeout 900",
        "source_commits": hook_commits,
        "add_only": True,
    },
    "engines": [{"name": "tlc", "path": "/verif/check", "serves_properties": [c["property_id"] for c in checks],
                 "kind_free_text": "TLA+ specifications under /verif/spec checked with TLC (model checking, simulation-based behaviour generation, trace validation); C adapters under /verif/harness drive the real library"}],
    "checks": checks,
    "not_applicable": na,
    "notes": "See DESIGN.md. Every check: TLC model-checks the TLA+ spec of the subsystem, generates behaviours, the C adapter executes them (plus seeded random ones) against libaws-c-common.a rebuilt from /repo's working tree (ASan, hook guard on), and TLC validates the recorded ndjson trace against the property-level spec.",
}
json.dump(m, open(os.path.join(V, "MANIFEST.json"), "w"), indent=1)
print("claimed:", [c["property_id"] for c in checks])
