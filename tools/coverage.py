#!/usr/bin/env python3
"""tools/coverage.py [IDs...]: line/function coverage of /repo's library sources under the quick tier of the checks
(coverage build variant, no sanitizer). Diagnostic only: finds public functions and branches in the anchored files
that no adapter drives. Writes out/cov/report.txt and out/cov/functions_not_run.txt."""
import glob, json, os, shutil, subprocess, sys
V = os.path.dirname(os.path.dirname(os.path.abspath(__file__)))
sys.path.insert(0, os.path.join(V, "lib")); sys.path.insert(0, V)
from checks import registry as R
from vlib import build
cov = os.path.join(V, "out", "cov")
shutil.rmtree(cov, ignore_errors=True); os.makedirs(cov)
env = dict(os.environ, VERIF_BUILD_VARIANT="cov", VERIF_EVIDENCE_SUPPRESS="1", VERIF_NO_RACE_SCAN="1",
           LLVM_PROFILE_FILE=os.path.join(cov, "%p-%m.profraw"))
ids = sys.argv[1:] or sorted(R.CLAIMED)
for pid in ids:
    r = subprocess.run(["./check", pid, "--tier", "quick"], cwd=V, env=env, stdout=subprocess.PIPE, stderr=subprocess.STDOUT, text=True)
    print(pid, "rc", r.returncode, flush=True)
raws = glob.glob(os.path.join(cov, "*.profraw"))
print(len(raws), "profraw files")
lst = os.path.join(cov, "raws.txt"); open(lst, "w").write("\n".join(raws))
subprocess.run(["llvm-profdata", "merge", "-sparse", "-f", lst, "-o", os.path.join(cov, "all.profdata")], check=True)
for f in raws: os.remove(f)
os.environ["VERIF_BUILD_VARIANT"] = "cov"
bdir = build.ensure_lib("cov")
exes = [e for e in glob.glob(os.path.join(bdir, "harness", "*")) if os.access(e, os.X_OK) and not e.endswith((".stamp", ".o")) and os.path.isfile(e) and "." not in os.path.basename(e)]
objs = []
for e in exes: objs += ["-object", e]
rep = subprocess.run(["llvm-cov", "report", "-instr-profile", os.path.join(cov, "all.profdata")] + objs[1:], stdout=subprocess.PIPE, stderr=subprocess.STDOUT, text=True)
open(os.path.join(cov, "report.txt"), "w").write(rep.stdout)
fn = subprocess.run(["llvm-cov", "report", "-show-functions", "-instr-profile", os.path.join(cov, "all.profdata")] + objs[1:], stdout=subprocess.PIPE, stderr=subprocess.STDOUT, text=True)
notrun = [l for l in fn.stdout.splitlines() if l.strip() and l.split()[-1:] and " 0.00%" in l]
open(os.path.join(cov, "functions.txt"), "w").write(fn.stdout)
print(rep.stdout[-3000:])
