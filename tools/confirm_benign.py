#!/usr/bin/env python3
"""tools/confirm_benign.py <PID> <outdir> <i> [more check ids...]
Runs my checks against one independently written PROPERTY-PRESERVING change (tools/benign_prompt.py) and records it under
/verif/seeded_benign/<PID>-b<i>/ (patch.diff, meta.json):
  1. scratch worktree /tmp/cbenign-<pid>-<i> at /repo HEAD, patch applied, RelWithDebInfo build, full test suite
  2. ./check <ID> --tier quick against the patched worktree for <PID>, for every listed property that anchors one of the
     touched files (at most 4 more), and for the ids given on the command line; evidence suppressed
Every check must stay silent (exit 0).  An alarm is either a false alarm of mine (fix the machinery) or a change that does
break the property after all (the author was wrong): decided by reading the replay, recorded in meta.json by hand.
The worktree is removed at the end.  Nothing is ever applied to /repo."""
import json
import os
import re
import shutil
import subprocess
import sys
import time

V = os.path.dirname(os.path.dirname(os.path.abspath(__file__)))


def sh(cmd, timeout=3600, env=None):
    e = dict(os.environ)
    if env:
        e.update(env)
    try:
        p = subprocess.run(cmd, shell=True, stdout=subprocess.PIPE, stderr=subprocess.STDOUT, text=True, timeout=timeout, env=e)
        return p.returncode, p.stdout
    except subprocess.TimeoutExpired as x:
        return -9, (x.stdout or "") if isinstance(x.stdout, str) else ""


def main():
    pid, outdir, i = sys.argv[1], sys.argv[2], sys.argv[3]
    more = [a.upper() for a in sys.argv[4:]]
    wt = "/tmp/cbenign-%s-%s" % (pid.lower(), i)
    dest = os.path.join(V, "seeded_benign", "%s-b%s" % (pid, i))
    patch = os.path.join(outdir, "patch%s.diff" % i)
    meta_in = os.path.join(outdir, "meta%s.json" % i)
    meta = json.load(open(meta_in)) if os.path.exists(meta_in) else {}
    touched = re.findall(r"^\+\+\+ b/(\S+)", open(patch).read(), re.M)
    props = [json.loads(l) for l in open(os.path.join(V, "properties.jsonl"))]
    ids = [pid]
    for p in props:
        if p["id"] != pid and set(p["anchors"]["files"]) & set(touched) and len(ids) < 5:
            ids.append(p["id"])
    for m in more:
        if m not in ids:
            ids.append(m)
    ran = []
    sh("git -C /repo worktree remove --force %s" % wt)
    rc, out = sh("git -C /repo worktree add --detach %s HEAD" % wt)
    if rc:
        print(out)
        return 3
    try:
        rc, out = sh("git -C %s apply %s" % (wt, patch))
        if rc:
            print("patch does not apply\n" + out)
            return 3
        tests_ok = None
        if not os.environ.get("BENIGN_SKIP_TESTS"):
            rc, out = sh("cmake -G Ninja -S %s -B %s/_b -DCMAKE_BUILD_TYPE=RelWithDebInfo -DCMAKE_C_FLAGS=-Wno-error >/dev/null && ninja -C %s/_b" % (wt, wt, wt))
            if rc:
                print("patched build failed\n" + out[-2000:])
                return 3
            rc_t, out_t = sh("ctest --test-dir %s/_b -j6 --timeout 900" % wt)
            m = re.search(r"(\d+)% tests passed, (\d+) tests failed out of (\d+)", out_t)
            failed = [re.sub(r".*Test +#\d+: (\S+) .*", r"\1", l.strip()) for l in out_t.splitlines()
                      if "***Failed" in l or "***Timeout" in l or "***Exception" in l]
            still = []
            for nm in failed[:6]:
                r2, o2 = sh("ctest --test-dir %s/_b -R '^%s$' --timeout 900" % (wt, nm))
                if r2:
                    still.append(nm)
            tests_ok = not still
            ran.append({"cmd": "ctest (full suite) on patched library", "summary": m.group(0) if m else "?", "still_failing_alone": still})
            shutil.rmtree(os.path.join(wt, "_b"), ignore_errors=True)
        alarms = []
        for cid in ids:
            t0 = time.time()
            rc_chk, out_chk = sh("cd %s && ./check %s --tier quick" % (V, cid), timeout=3000,
                                 env={"VERIF_REPO": wt, "VERIF_EVIDENCE_SUPPRESS": "1"})
            viol = [l for l in out_chk.splitlines() if l.startswith("VIOLATION")]
            detail = [l.strip() for l in out_chk.splitlines() if l.strip().startswith("->")]
            ran.append({"cmd": "VERIF_REPO=<patched worktree> ./check %s --tier quick" % cid, "rc": rc_chk,
                        "wall_s": round(time.time() - t0), "violations": len(viol),
                        "first": (detail[0][:600] if detail else out_chk[-600:] if rc_chk != 0 else "")})
            if rc_chk != 0:
                alarms.append(cid)
                # keep the replay directory of the first violation for diagnosis
                for l in viol[:1]:
                    mm = re.search(r"replay=(\S+)", l)
                    if mm and os.path.isdir(mm.group(1)):
                        keep = os.path.join(V, "out", "_benign_alarm_%s_b%s_%s" % (pid, i, cid))
                        shutil.rmtree(keep, ignore_errors=True)
                        shutil.copytree(mm.group(1), keep)
        os.makedirs(dest, exist_ok=True)
        shutil.copy(patch, os.path.join(dest, "patch.diff"))
        meta_out = {"property": pid, "summary": meta.get("summary", ""), "why_preserving": meta.get("why_preserving", ""),
                    "files": meta.get("files", touched), "tests_pass": tests_ok, "checks_run": ids, "alarms": alarms,
                    "what_i_ran": ran, "repo_head": sh("git -C /repo rev-parse --short HEAD")[1].strip()}
        json.dump(meta_out, open(os.path.join(dest, "meta.json"), "w"), indent=1)
        print("BENIGN %s-b%s tests_ok=%s checks=%s alarms=%s" % (pid, i, tests_ok, ",".join(ids), ",".join(alarms) or "none"))
        for r in ran:
            if r.get("rc"):
                print("   ", r["cmd"], "rc", r["rc"], r.get("first", "")[:500])
        return 0
    finally:
        sh("git -C /repo worktree remove --force %s" % wt)
        shutil.rmtree(wt, ignore_errors=True)


if __name__ == "__main__":
    sys.exit(main())
